"""One coverage-guided fuzzing campaign (atheris / libFuzzer) of one fuzz part, in its own process.

usage: python -m vt.fuzzshard <check-id> <part> <seed> <runs> <outfile> <corpusdir>

The semantic oracle runs inside the fuzz target (part.execute); a Violation stops the
campaign and the decoded case is written to <outfile> (the runner re-executes it from a
replay file, without the fuzzer). Statistics are dumped to <outfile> every 500 executions
because libFuzzer ends the process without running Python clean-up code.
"""

import collections
import json
import os
import sys
import time


def main(argv):
    check_id, part_name, seed, runs, outfile, corpus = argv
    seed = int(seed) or 1
    runs = int(runs)
    here = os.path.dirname(os.path.dirname(os.path.abspath(__file__)))
    sys.path.insert(0, os.path.join(here, ".deps"))
    import atheris
    import importlib

    from .core import Violation, fingerprint, jsonable

    mod = importlib.import_module("vt.checks." + check_id.lower())
    part = [p for p in mod.PARTS if p.name == part_name][0]
    for name in part.instrument:
        sys.modules.pop(name, None)
    with atheris.instrument_imports(include=list(part.instrument)):
        for name in part.instrument:
            importlib.import_module(name)

    st = {"evals": 0, "classes": collections.Counter(), "nontrivial": set(), "samples": [], "failure": None, "t0": time.time()}

    def dump():
        with open(outfile + ".tmp", "w") as f:
            json.dump({"evals": st["evals"], "classes": dict(st["classes"]), "nontrivial": sorted(st["nontrivial"]), "samples": st["samples"],
                       "failure": st["failure"], "wall_s": round(time.time() - st["t0"], 2)}, f)
        os.replace(outfile + ".tmp", outfile)

    def target(data):
        fdp = atheris.FuzzedDataProvider(data)
        case = jsonable(part.decode(fdp))
        st["evals"] += 1
        try:
            out = part.execute(case)
        except Violation as v:
            st["failure"] = {"case": case, "clause": v.clause, "msg": v.msg, "details": {}}
            dump()
            raise
        for c in out.classes:
            st["classes"][c] += 1
        if out.nontrivial:
            st["nontrivial"].add(fingerprint(case))
        if len(st["samples"]) < 3:
            st["samples"].append({"case": case, "classes": out.classes, "nontrivial": out.nontrivial})
        if st["evals"] % 500 == 0 or st["evals"] >= runs - 2:
            dump()

    os.makedirs(corpus, exist_ok=True)
    dump()
    atheris.Setup([sys.argv[0], f"-runs={runs}", f"-seed={seed}", "-max_len=96", "-print_final_stats=0", "-verbosity=0",
                   "-artifact_prefix=" + os.path.join(os.path.abspath(corpus), "artifact-"), corpus], target)
    atheris.Fuzz()


if __name__ == "__main__":
    main(sys.argv[1:])
