"""Scenario helpers shared by C01 / C03 / C19: build a pyramid from a case and run
walk / visit_leaves serially or on Engine A (simulated multiprocessing)."""

from hypothesis import strategies as st

from . import gens
from . import refpyramid as rp
from .simsched import SimWorld, SimUnsupported


def coordsys_of(name):
    from toasty import toast

    return toast.ToastCoordinateSystem.ASTRONOMICAL if name != "planetary" else toast.ToastCoordinateSystem.PLANETARY


def make_pyramid(case):
    from toasty import pyramid as py

    kind, depth = case["kind"], case["depth"]
    cs = coordsys_of(case.get("coordsys", "astronomical"))
    if kind == "generic":
        p = py.Pyramid.new_generic(depth)
    elif kind == "toast":
        p = py.Pyramid.new_toast(depth, coordsys=cs)
    else:
        F = gens.filter_fn(case["filter"])
        p = py.Pyramid.new_toast_filtered(depth, lambda t: F(tuple(t.pos)), coordsys=cs)
    if case.get("apex") is not None:
        p = p.subpyramid(py.Pos(*case["apex"]))
    return p


def ref_of(case):
    F = gens.filter_fn(case["filter"]) if case["kind"] == "filtered" else None
    apex = tuple(case["apex"]) if case.get("apex") is not None else (0, 0, 0)
    return rp.RefPyramid(case["depth"], F, apex)


class Recorder(object):
    """Callback that records start/end of each invocation together with the
    simulated process that ran it. Never copied (fork emulation shares it, as a
    log file would be shared)."""

    def __init__(self, world=None, fail_at=None, fail_exc=None):
        self.world = world
        self.log = []
        self.fail_at = tuple(fail_at) if fail_at is not None else None
        self.fail_exc = fail_exc or RuntimeError

    def __deepcopy__(self, memo):
        return self

    def _pid(self):
        return self.world.current_pid() if self.world is not None else 0

    def walk_cb(self, pos):
        p = tuple(pos)
        self.log.append(("S", p, self._pid()))
        if self.world is not None:
            self.world.checkpoint("cb")
        if self.fail_at == p:
            raise self.fail_exc(f"injected failure at {p}")
        self.log.append(("E", p, self._pid()))

    def leaf_cb(self, pos, tile):
        p = tuple(pos)
        self.log.append(("S", p, self._pid(), tile))
        if self.world is not None:
            self.world.checkpoint("cb")
        if self.fail_at == p:
            raise self.fail_exc(f"injected failure at {p}")
        self.log.append(("E", p, self._pid()))


from contextlib import contextmanager


@contextmanager
def critical_section_yields(world):
    """Let Engine A suspend a simulated process INSIDE a tile's read-modify-write: the read and the
    write of PyramidIO become yield points, and filelock's wait between two lock attempts becomes a
    yield instead of a sleep (the lock itself stays the real filelock.SoftFileLock on real files)."""
    import filelock._api as fapi
    from toasty.pyramid import PyramidIO

    orig_read, orig_write, orig_time = PyramidIO.read_image, PyramidIO.write_image, fapi.time

    class _Time(object):
        def __getattr__(self, n):
            return getattr(orig_time, n)

        def sleep(self, s):
            if world.current_pid() is None:
                return orig_time.sleep(s)
            world._yield(("ro", "lock-wait"))

    def read_image(self, pos, *a, **k):
        world.checkpoint("tile-read")
        return orig_read(self, pos, *a, **k)

    def write_image(self, pos, *a, **k):
        world.checkpoint("tile-write")
        return orig_write(self, pos, *a, **k)

    PyramidIO.read_image = read_image
    PyramidIO.write_image = write_image
    fapi.time = _Time()
    try:
        yield
    finally:
        PyramidIO.read_image = orig_read
        PyramidIO.write_image = orig_write
        fapi.time = orig_time


@contextmanager
def fs_yields(world):
    """Let Engine A switch processes around the directory look-ups and creations that toasty.pyramid makes when it builds a tile's
    path: a look (`os.path.isdir` / `exists`) yields after it has been answered, a creation (`os.makedirs` / `mkdir`) yields before it
    acts - so that two workers writing the first two tiles of one row directory can be interleaved between look and creation. The calls
    themselves are the real ones on real directories."""
    import toasty.pyramid as tp

    real = tp.os

    class _Path(object):
        def __getattr__(self, n):
            return getattr(real.path, n)

        def isdir(self, *a, **k):
            r = real.path.isdir(*a, **k)
            world.checkpoint("fs-look")
            return r

        def exists(self, *a, **k):
            r = real.path.exists(*a, **k)
            world.checkpoint("fs-look")
            return r

    class _Os(object):
        path = _Path()

        def __getattr__(self, n):
            return getattr(real, n)

        def makedirs(self, *a, **k):
            world.checkpoint("fs-create")
            return real.makedirs(*a, **k)

        def mkdir(self, *a, **k):
            world.checkpoint("fs-create")
            return real.mkdir(*a, **k)

    tp.os = _Os()
    try:
        yield
    finally:
        tp.os = real


def run_sim(fn, sched, world=None):
    """Run fn() as the caller process of a simulated world. Returns (world, result)."""
    w = world or SimWorld(sched)
    with w.patched():
        res = w.run(fn)
    return w, res


@st.composite
def schedules(draw, max_size=300):
    return {
        "choices": draw(st.lists(st.integers(0, 15), max_size=max_size)),
        "every": draw(st.sampled_from([1, 1, 2, 3, 7, 20])),
        "policy": draw(st.integers(0, 7)),
        "freeze": [
            [draw(st.integers(0, 5)), draw(st.integers(0, 200)), draw(st.integers(5, 120))]
            for _ in range(draw(st.sampled_from([0, 0, 1, 2])))
        ],
        # stall whoever reaches the k-th tile read / write (only where tile I/O is a yield point) for `dur` steps
        "stall": [
            [draw(st.sampled_from(["tile-write", "tile-write", "tile-read"])), draw(st.integers(0, 6)), draw(st.integers(20, 200))]
            for _ in range(draw(st.sampled_from([0, 1, 1])))
        ],
    }


@st.composite
def deep_sparse_pyramid(draw):
    """a pyramid of depth 10-12 (where the library starts to print its 'counting tiles' progress notes) that is cheap to
    enumerate because it is sparse: a sub-pyramid whose apex lies at most two levels above the leaves (possibly at the
    leaf level: nothing to do), or a filter accepting only the ancestor chains of a few deep positions (possibly cut)"""
    kind = draw(st.sampled_from(["generic", "toast", "filtered", "filtered"]))
    depth = draw(st.integers(10, 12))
    case = {"kind": kind, "depth": depth, "deep": True}
    if kind != "generic":
        case["coordsys"] = draw(st.sampled_from(["astronomical", "planetary"]))
    if kind == "filtered":
        flip = set()
        tips = []
        for _ in range(draw(st.integers(0, 3))):
            p = tuple(draw(gens.positions(depth, depth - 2)))
            tips.append(p)
            cut = draw(st.sampled_from([0, 0, 0, 3, depth - 1, depth]))
            for lev in range(1, p[0] + 1):
                if lev != cut:
                    flip.add(rp.ancestor_at(p, lev))
            if p[0] < depth and draw(st.booleans()):
                flip.update(rp.children(p))
        case["filter"] = {"default": False, "flip": sorted(list(f) for f in flip)}
        if tips and draw(st.booleans()):
            t = tips[0]
            case["apex"] = list(rp.ancestor_at(t, draw(st.integers(0, t[0]))))
        elif draw(st.integers(0, 3)) == 0:
            case["apex"] = draw(gens.positions(depth, depth - 1))
    else:
        case["apex"] = draw(gens.positions(depth, depth - 2))
    return case


@st.composite
def pyramid_cases(draw, max_depth, with_k=True, kmax=8, min_depth=0, deep_one_in=0):
    if deep_one_in and draw(st.integers(1, deep_one_in)) == 1:
        case = draw(deep_sparse_pyramid())
        if with_k:
            case["k"] = draw(st.sampled_from([1, 2, 2, 3, 3, 4, 5, 8][: max(2, kmax)]))
            if case["k"] > 1:
                case["sched"] = draw(schedules())
        return case
    kind = draw(st.sampled_from(["generic", "toast", "filtered", "filtered", "filtered"]))
    depth = draw(st.integers(min_depth, max_depth))
    case = {"kind": kind, "depth": depth}
    if kind == "filtered":
        case["filter"] = draw(gens.filter_specs(depth))
    if kind != "generic":
        case["coordsys"] = draw(st.sampled_from(["astronomical", "planetary"]))
    ap = draw(gens.apexes(depth))
    if ap is not None:
        if kind == "filtered" and depth >= 1 and draw(st.integers(0, 3)) > 0:
            ref = rp.RefPyramid(depth, gens.filter_fn(case["filter"]))
            cand = sorted(ref.reached)
            ap = list(cand[draw(st.integers(0, len(cand) - 1))])
        case["apex"] = ap
    if with_k:
        case["k"] = draw(st.sampled_from([1, 2, 2, 3, 3, 4, 5, 8][: max(2, kmax)]))
        if case["k"] > 1:
            case["sched"] = draw(schedules())
    return case
