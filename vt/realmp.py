"""Engine R helpers: run a public entry point on REAL multiprocessing inside the shard process,
with callbacks that log to one O_APPEND file (one os.write per line, so file order is a
linearisation consistent with real time) and a watchdog that turns a hang into a verdict."""

import os
import signal
import time
from contextlib import contextmanager


class WatchdogExpired(BaseException):
    """not an Exception: toasty's dispatcher loops catch OSError/ValueError/Empty"""


@contextmanager
def watchdog(seconds):
    def handler(signum, frame):
        raise WatchdogExpired()

    old = signal.signal(signal.SIGALRM, handler)
    signal.setitimer(signal.ITIMER_REAL, seconds)
    try:
        yield
    finally:
        signal.setitimer(signal.ITIMER_REAL, 0)
        signal.signal(signal.SIGALRM, old)


class FileRecorder(object):
    """walk / leaf callbacks usable across real processes"""

    def __init__(self, path, fail_at=None, fail_exc=RuntimeError, delays=None):
        self.path = path
        self.fail_at = tuple(fail_at) if fail_at is not None else None
        self.fail_exc = fail_exc
        self.delays = delays or {}
        open(path, "w").close()

    def _w(self, line):
        fd = os.open(self.path, os.O_WRONLY | os.O_APPEND)
        try:
            os.write(fd, (line + "\n").encode())
        finally:
            os.close(fd)

    def _delay(self, p):
        ms = self.delays.get("%d_%d_%d" % p, (p[0] * 7 + p[1] * 3 + p[2]) % 4)
        if ms:
            time.sleep(ms / 1000.0)

    def walk_cb(self, pos):
        p = tuple(pos)
        self._w("S %d %d %d %d" % (p + (os.getpid(),)))
        self._delay(p)
        if self.fail_at == p:
            raise self.fail_exc(f"injected failure at {p}")
        self._w("E %d %d %d %d" % (p + (os.getpid(),)))

    def leaf_cb(self, pos, tile):
        p = tuple(pos)
        tp = "-" if tile is None else "%d_%d_%d" % tuple(tile.pos)
        self._w("S %d %d %d %d %s" % (p + (os.getpid(), tp)))
        self._delay(p)
        if self.fail_at == p:
            raise self.fail_exc(f"injected failure at {p}")
        self._w("E %d %d %d %d" % (p + (os.getpid(),)))

    def log(self):
        out = []
        for line in open(self.path).read().splitlines():
            f = line.split()
            rec = (f[0], (int(f[1]), int(f[2]), int(f[3])), int(f[4]))
            if len(f) > 5:
                rec = rec + (f[5],)
            out.append(rec)
        return out


def children_alive():
    import multiprocessing as mp

    return [c for c in mp.active_children()]


def reap_children(timeout=5.0):
    import multiprocessing as mp

    t0 = time.time()
    for c in mp.active_children():
        c.join(max(0.0, timeout - (time.time() - t0)))
    for c in mp.active_children():
        c.terminate()
