"""RefPyramid: a reference model of pyramid scope, written from the documentation
of toasty.pyramid (no toasty imports).

Positions are tuples (n, x, y).

depth D, apex A (default (0,0,0)), optional predicate F over positions:

  reached : positions p with p.n <= D such that every ancestor-or-self q of p with
            q.n >= 1 satisfies F(q) (level 0 is never filtered), and p is an
            ancestor of A, A itself, or a descendant of A.
  leaves  : reached positions at level D that are descendants-or-self of A.
  live    : leaves and all their ancestors down to A's level.
  ops     : live - leaves  (the tiles a walk must visit).
"""


def parent(p):
    n, x, y = p
    return (n - 1, x // 2, y // 2)


def children(p):
    n, x, y = p
    return [(n + 1, 2 * x, 2 * y), (n + 1, 2 * x + 1, 2 * y), (n + 1, 2 * x, 2 * y + 1), (n + 1, 2 * x + 1, 2 * y + 1)]


def ancestor_at(p, level):
    n, x, y = p
    s = n - level
    return (level, x >> s, y >> s)


def is_desc_or_self(d, s):
    return d[0] >= s[0] and ancestor_at(d, s[0]) == tuple(s)


def all_positions(depth):
    for n in range(depth + 1):
        for y in range(2**n):
            for x in range(2**n):
                yield (n, x, y)


class RefPyramid(object):
    def __init__(self, depth, F=None, apex=(0, 0, 0)):
        self.depth = depth
        self.apex = tuple(apex)
        self.F = F
        self.reached = set()
        self.order = []  # postfix order of reached positions (children before parents)
        self._walk((0, 0, 0))
        self.leaves = set(p for p in self.reached if p[0] == depth and is_desc_or_self(p, self.apex))
        self.live = set()
        for l in self.leaves:
            for lev in range(self.apex[0], depth + 1):
                self.live.add(ancestor_at(l, lev))
        self.ops = self.live - self.leaves

    def _in_scope(self, p):
        a = self.apex
        if p[0] <= a[0]:
            return ancestor_at(a, p[0]) == p
        return ancestor_at(p, a[0]) == a

    def _walk(self, p):
        if p[0] > self.depth:
            return
        if not self._in_scope(p):
            return
        if p[0] >= 1 and self.F is not None and not self.F(p):
            return
        self.reached.add(p)
        for c in children(p):
            self._walk(c)
        self.order.append(p)
