"""Generators of linear celestial WCS descriptions (JSON-able) and their construction."""

import math

import numpy as np
from hypothesis import strategies as st


@st.composite
def wcs_specs(draw, projections=("TAN", "SIN", "ARC", "STG", "CAR"), max_dec=89.0, min_scale_log=-4.0, max_scale_log=-0.3, allow_skew=True):
    proj = draw(st.sampled_from(list(projections)))
    ra = draw(st.one_of(st.floats(0, 360, exclude_max=True), st.sampled_from([0.0, 359.99, 180.0, 0.01])))
    dec = draw(st.one_of(st.floats(-max_dec, max_dec), st.sampled_from([0.0, 45.0, -60.0])))
    scale = 10 ** draw(st.floats(min_scale_log, max_scale_log))
    ratio = draw(st.sampled_from([1.0, 1.0, 0.5, 1.7]))
    rot_kind = draw(st.sampled_from(["any", "any", "right", "zero"]))
    if rot_kind == "any":
        rot = draw(st.floats(-180, 180))
    elif rot_kind == "right":
        rot = float(draw(st.sampled_from([90, -90, 180, 270])))
    else:
        rot = 0.0
    skew = draw(st.sampled_from([0.0, 0.0, 0.0, 10.0, -25.0])) if allow_skew else 0.0
    parity = draw(st.sampled_from([1, -1]))
    spelling = draw(st.sampled_from(["CD", "PC"]))
    crpix_mode = draw(st.sampled_from(["inside", "inside", "outside", "half"]))
    return {
        "proj": proj, "ra": ra, "dec": dec, "scale": scale, "ratio": ratio, "rot": rot, "skew": skew,
        "parity": parity, "spelling": spelling, "crpix_mode": crpix_mode,
        "crpix_u": draw(st.floats(0, 1)), "crpix_v": draw(st.floats(0, 1)),
    }


def cd_matrix(spec):
    """CD matrix (deg/pixel). parity +1 = FITS-like (negative determinant), -1 = JPEG-like."""
    r = math.radians(spec["rot"])
    k = math.radians(spec["skew"])
    s1 = spec["scale"]
    s2 = spec["scale"] * spec["ratio"]
    if spec["rot"] in (90.0, -90.0, 180.0, 270.0, 0.0):
        c = float(round(math.cos(r)))
        s = float(round(math.sin(r)))
    else:
        c, s = math.cos(r), math.sin(r)
    # unrotated FITS-like: RA decreases with x (cd11 < 0), Dec increases with y
    base = np.array([[-s1, 0.0], [0.0, s2]])
    if spec["parity"] == -1:
        base = np.array([[-s1, 0.0], [0.0, -s2]])
    shear = np.array([[1.0, math.tan(k)], [0.0, 1.0]])
    rotm = np.array([[c, -s], [s, c]])
    return rotm @ base @ shear


def header_of(spec, width, height):
    from astropy.io import fits

    cd = cd_matrix(spec)
    h = fits.Header()
    # the size the WCS "remembers" (NAXISi): normally the image's own; optionally none at all, or another image's (a WCS
    # taken over from a reference file or a parent frame)
    nax = spec.get("naxis")
    if nax == "none":
        pass
    else:
        h["NAXIS"] = 2
        h["NAXIS1"] = width if not nax else int(nax[0])
        h["NAXIS2"] = height if not nax else int(nax[1])
    if spec.get("latfirst"):
        # the latitude axis listed first (legal FITS; some radio / survey products): world axis i is row i of the matrix
        h["CTYPE1"] = "DEC--" + spec["proj"]
        h["CTYPE2"] = "RA---" + spec["proj"]
        h["CRVAL1"] = spec["dec"]
        h["CRVAL2"] = spec["ra"]
        cd = cd[[1, 0], :]
    else:
        h["CTYPE1"] = "RA---" + spec["proj"]
        h["CTYPE2"] = "DEC--" + spec["proj"]
        h["CRVAL1"] = spec["ra"]
        h["CRVAL2"] = spec["dec"]
    h["CUNIT1"] = "deg"
    h["CUNIT2"] = "deg"
    mode = spec["crpix_mode"]
    if mode == "inside":
        cx = 1 + spec["crpix_u"] * (width - 1)
        cy = 1 + spec["crpix_v"] * (height - 1)
    elif mode == "half":
        cx = (width + 1) / 2
        cy = (height + 1) / 2
    else:
        cx = -2 * width + spec["crpix_u"] * 5 * width
        cy = -2 * height + spec["crpix_v"] * 5 * height
    h["CRPIX1"] = cx
    h["CRPIX2"] = cy
    if spec["spelling"] == "CD":
        h["CD1_1"], h["CD1_2"], h["CD2_1"], h["CD2_2"] = [float(v) for v in cd.ravel()]
    else:
        d1 = math.copysign(math.hypot(cd[0, 0], cd[1, 0]), -1) or -spec["scale"]
        d2 = math.hypot(cd[0, 1], cd[1, 1]) or spec["scale"]
        h["CDELT1"] = d1
        h["CDELT2"] = d2
        h["PC1_1"] = float(cd[0, 0] / d1)
        h["PC1_2"] = float(cd[0, 1] / d1)
        h["PC2_1"] = float(cd[1, 0] / d2)
        h["PC2_2"] = float(cd[1, 1] / d2)
    if spec.get("lonpole") is not None:
        # native longitude of the celestial pole given explicitly (a rotation about the reference point)
        h["LONPOLE"] = float(spec["lonpole"])
    return h


def wcs_of(spec, width, height):
    from astropy.wcs import WCS
    import warnings

    with warnings.catch_warnings():
        warnings.simplefilter("ignore")
        return WCS(header_of(spec, width, height))


def expected_parity(spec):
    cd = cd_matrix(spec)
    det = cd[0, 0] * cd[1, 1] - cd[0, 1] * cd[1, 0]
    return 1 if det < 0 else -1
