"""C03 — Parallel stages hand every work item to exactly one worker and then terminate."""

from collections import Counter

import numpy as np
from hypothesis import strategies as st

from ..core import Part, Outcome, Violation, HarnessError
from .. import refpyramid as rp
from .. import reftoast as rt
from .. import gens, scen
from ..simsched import SimWorld, SimUnsupported

PROPERTY_ID = "C03"
LEVEL = "exploration"
RULE = (
    "case = (stage, item set, worker count k, schedule). Stages: Pyramid.visit_leaves on generated pyramids "
    "(kind, depth, filter, apex); the pyramid-wide transform u8_to_rgb over all positions of a depth; multi-image "
    "study tiling (MultiTanProcessor.tile on 1-6 generated sub-images). k>=2 runs the real producer and worker "
    "functions on Engine A with a generated schedule (feeder flushes, receive time-outs and the shutdown signal are "
    "separately schedulable). Oracle: the multiset of items processed = reference item set (RefPyramid.leaves / all "
    "positions / the inputs) = what k=1 processes, each exactly once, each leaf with its own RefToast geometry; "
    "at return every worker has exited with code 0 and no item is left in any pipe or feeder buffer; no hang. "
    "Non-trivial: k>=2 and (more items than the bounded queue holds, or a receive time-out fired while an item sat in "
    "a feeder buffer, or the producer blocked on a full queue, or a scheduler choice deviated from the policy)."
)
ASSUMPTIONS = [
    "Engine A models Queue/Event/Process (see DESIGN.md §2.2); callbacks are atomic except at their checkpoint",
    "leaf geometry is compared with RefToast (unit vectors, 1e-12 rad)",
]


def sim_facts(w, classes):
    if w.timeouts_fired:
        classes.append("timeout-fired")
    if w.timeouts_fired_with_buffered:
        classes.append("timeout-while-item-in-feeder")
    if w.put_blocked:
        classes.append("producer-blocked-on-full-queue")


def judge_termination(desc, res, w):
    if res["status"] == "hang":
        raise Violation("terminates", f"operation never returns: {res['hang']}; case {desc}")
    if res["status"] == "raised":
        if isinstance(res["exc"], SimUnsupported):
            raise res["exc"]
        raise Violation("terminates", f"operation raised {type(res['exc']).__name__}: {res['exc']}; case {desc}")
    if res["status"] != "returned":
        raise HarnessError(f"simulation inconclusive: {res['status']}")


def judge_workers(desc, w):
    if not w.all_exited():
        raise Violation("workers-exited", f"operation returned while worker processes were still running; case {desc}")
    bad = [c for c in w.worker_exitcodes() if c != 0]
    if bad:
        raise Violation("workers-exited", f"worker exit codes {w.worker_exitcodes()}; stderr: {w.stderr.getvalue()[-400:]}; case {desc}")


def judge_items(desc, got, expected, what):
    c = Counter(got)
    dup = sorted(p for p, n in c.items() if n > 1)
    if dup:
        raise Violation("exactly-once", f"{what}: processed more than once: {dup[:4]}; case {desc}")
    miss = sorted(set(expected) - set(c))
    extra = sorted(set(c) - set(expected))
    if miss or extra:
        raise Violation("exactly-once", f"{what}: {len(c)} items processed, {len(set(expected))} expected; lost {miss[:4]} unexpected {extra[:4]}; case {desc}")


# ------------------------------------------------------------------ (a) visit_leaves


def check_leaf_geometry(case, log):
    planetary = case.get("coordsys") == "planetary"
    for e in log:
        if e[0] != "S":
            continue
        pos, tile = e[1], e[3]
        if case["kind"] == "generic" or case["depth"] == 0:
            if tile is not None:
                raise Violation("own-geometry", f"leaf {pos} of a pyramid without TOAST geometry was delivered with a tile")
            continue
        if tile is None or tuple(tile.pos) != pos:
            raise Violation("own-geometry", f"leaf {pos} delivered with tile {None if tile is None else tuple(tile.pos)}")
        c, inc = rt.tile_corners(*pos, planetary=planetary)
        tc = np.array([rt.lonlat_to_vec(a[0], a[1]) for a in tile.corners])
        d = float(rt.ang_dist(c, tc).max())
        if d > 1e-12 or bool(tile.increasing) != inc:
            raise Violation("own-geometry", f"leaf {pos} delivered with corners {d:.3g} rad away from its own geometry (increasing={tile.increasing}, expected {inc})")


def exec_leaves(case):
    ref = scen.ref_of(case)
    k = case.get("k", 1)
    desc = {a: b for a, b in case.items() if a != "sched"}
    classes = ["visit_leaves", case["kind"], f"depth{case['depth']}", f"k{k}"]
    dev = 0
    if k == 1:
        rec = scen.Recorder()
        try:
            scen.make_pyramid(case).visit_leaves(rec.leaf_cb, parallel=1)
        except Exception as e:  # noqa
            raise Violation("terminates", f"serial visit_leaves raised {type(e).__name__}: {e}; case {desc}")
        w = None
    else:
        w = SimWorld(case.get("sched"))
        rec = scen.Recorder(w)
        w, res = scen.run_sim(lambda: scen.make_pyramid(case).visit_leaves(rec.leaf_cb, parallel=k), None, world=w)
        judge_termination(desc, res, w)
        dev = w.deviations
        sim_facts(w, classes)
    starts = [e[1] for e in rec.log if e[0] == "S"]
    ends = [e[1] for e in rec.log if e[0] == "E"]
    judge_items(desc, starts, ref.leaves, "leaf visits")
    if sorted(ends) != sorted(starts):
        raise Violation("fully-processed", f"operation returned before every leaf callback had completed; case {desc}")
    check_leaf_geometry(case, rec.log)
    if w is not None:
        judge_workers(desc, w)
        if w.leftovers():
            raise Violation("exactly-once", f"{w.leftovers()} item(s) left in queues at return; case {desc}")
        if len(set(e[2] for e in rec.log)) > 1:
            classes.append("multi-worker")
    n = len(ref.leaves)
    if not n:
        classes.append("no-items")
    nt = k >= 2 and n > 0 and (n > 2 * k or (w.timeouts_fired_with_buffered > 0) or w.put_blocked > 0 or dev > 0)
    return Outcome(classes=classes, nontrivial=nt, info={"items": n, "steps": None if w is None else w.steps})


# ------------------------------------------------------------------ (b) transforms


class FakePio(object):
    """A pyramid I/O object for transforms that records which process handled which tile."""

    def __init__(self, world, holes, kind="u8"):
        self.world = world
        self.holes = set(holes)
        self.kind = kind
        self.reads = []
        self.writes = []

    @staticmethod
    def tile_value(p, kind):
        """(stored value, value expected in the transformed tile) - distinguishes neighbouring tiles"""
        if kind == "u8":
            v = (p[0] * 37 + p[1] * 5 + p[2]) % 251
            return v, v
        v = np.float16(((p[0] * 37 + p[1] * 5 + p[2]) % 40) / 40.0)
        return v, int(np.clip(np.sqrt(float(v)) * 255, 0, 255))

    def __deepcopy__(self, memo):
        return self

    def _pid(self):
        return self.world.current_pid() if self.world is not None else 0

    def read_image(self, pos, default="none", masked_mode=None, format=None):
        from toasty.image import Image

        p = tuple(pos)
        self.reads.append((p, self._pid()))
        if self.world is not None:
            self.world.checkpoint("read")
        if p in self.holes:
            return None
        if self.kind == "u8":
            return Image.from_array(np.full((256, 256), self.tile_value(p, "u8")[0], dtype=np.uint8))
        return Image.from_array(np.full((256, 256, 3), self.tile_value(p, "f16x3")[0], dtype=np.float16))

    def write_image(self, pos, image, format=None, mode=None, **kw):
        self.writes.append((tuple(pos), self._pid(), int(image.asarray()[0, 0, 0]), format))

    def get_default_format(self):
        return "npy"

    def get_default_vertical_parity_sign(self):
        return -1


def exec_transform(case):
    from toasty import transform

    depth, k = case["depth"], case["k"]
    which = case.get("which", "u8")  # the two public pyramid-wide transforms
    sep_out = bool(case.get("sep_out"))  # results into another pyramid (pio_out=), as `toasty transform --outdir` does
    holes = [tuple(h) for h in case.get("holes", [])]
    desc = {a: b for a, b in case.items() if a != "sched"}
    classes = ["transform", which, f"depth{depth}", f"k{k}"] + (["separate-output-pyramid"] if sep_out else [])
    expected = list(rp.all_positions(depth))
    dev = 0

    def call(pio, pio_out, par):
        kw = {"parallel": par}
        if pio_out is not None:
            kw["pio_out"] = pio_out
        if which == "u8":
            return transform.u8_to_rgb(pio, depth, **kw)
        if case.get("out_format"):
            kw["out_format"] = case["out_format"]
        return transform.f16x3_to_rgb(pio, depth, **kw)

    if k == 1:
        pio = FakePio(None, holes, which)
        pio_out = FakePio(None, [], which) if sep_out else None
        try:
            call(pio, pio_out, 1)
        except Exception as e:  # noqa
            raise Violation("terminates", f"serial transform raised {type(e).__name__}: {e}")
        w = None
    else:
        w = SimWorld(case.get("sched"))
        pio = FakePio(w, holes, which)
        pio_out = FakePio(w, [], which) if sep_out else None
        w, res = scen.run_sim(lambda: call(pio, pio_out, k), None, world=w)
        judge_termination(desc, res, w)
        dev = w.deviations
        sim_facts(w, classes)
    judge_items(desc, [r[0] for r in pio.reads], expected, "tiles transformed")
    exp_w = [p for p in expected if p not in set(holes)]
    sink = pio_out if sep_out else pio
    judge_items(desc, [r[0] for r in sink.writes], exp_w, "tiles written")
    if sep_out and (pio.writes or pio_out.reads):
        raise Violation("exactly-once", f"a separate output pyramid was given, but the input pyramid was written {len(pio.writes)} time(s) / the output pyramid read {len(pio_out.reads)} time(s); case {desc}")
    want_fmt = "jpg" if which == "u8" else (case.get("out_format") or "png")
    for p, _pid, val, fmt in sink.writes:
        if abs(val - FakePio.tile_value(p, which)[1]) > (0 if which == "u8" else 1):
            raise Violation("own-item", f"tile {p} written with the content of another tile (value {val}, expected {FakePio.tile_value(p, which)[1]}); case {desc}")
        if fmt != want_fmt:
            raise Violation("own-item", f"tile {p} written as {fmt!r}, the transform's output format is {want_fmt!r}; case {desc}")
    if w is not None:
        judge_workers(desc, w)
        if w.leftovers():
            raise Violation("exactly-once", f"{w.leftovers()} item(s) left in queues at return; case {desc}")
    n = len(expected)
    nt = k >= 2 and (n > 16 * k or (w.timeouts_fired_with_buffered > 0) or w.put_blocked > 0 or dev > 0)
    return Outcome(classes=classes, nontrivial=nt, info={"items": n})


@st.composite
def strat_transform(draw, tier):
    depth = draw(st.integers(0, 3))
    k = draw(st.sampled_from([1, 2, 2, 3, 4, 8]))
    holes = draw(st.lists(gens.positions(depth), max_size=4))
    case = {"depth": depth, "k": k, "holes": holes}
    if draw(st.integers(0, 2)) == 0:
        case["which"] = "f16x3"
        if draw(st.booleans()):
            case["out_format"] = draw(st.sampled_from(["png", "jpg"]))
    if draw(st.integers(0, 3)) == 0:
        case["sep_out"] = True
    if k > 1:
        case["sched"] = draw(scen.schedules())
    return case


# ------------------------------------------------------------------ (c) multi-image study tiling


def make_rec_pio(base_dir, fmt, world, log):
    from toasty.pyramid import PyramidIO

    class RecPio(PyramidIO):
        """records every read-modify-write of a tile with the process that did it"""

        def __deepcopy__(self, memo):
            return self

        def update_image(self, pos, **kw):
            log.append((tuple(pos), world.current_pid() if world is not None else 0))
            return PyramidIO.update_image(self, pos, **kw)

    return RecPio(base_dir, default_format=fmt)


def exec_multi_tan(case):
    import os
    import warnings
    from collections import Counter as C
    from toasty import collection, multi_tan
    from toasty.builder import Builder
    from ..core import fresh_dir
    from .. import mtgen

    k = case["k"]
    desc = {a: b for a, b in case.items() if a != "sched"}
    classes = ["multi_tan", f"k{k}", f"inputs{len(case['rects'])}"]
    logs = {}
    with fresh_dir("c03mt-") as d:
        ind = os.path.join(d, "in")
        os.makedirs(ind)
        paths, exp, box = mtgen.write_inputs(case, ind)
        canvas_exp, levels = mtgen.expected_canvas(exp)
        w = None
        for label, kk in (("serial", 1), ("parallel", k)):
            if label == "parallel" and k == 1:
                continue
            log = []
            world = SimWorld(case.get("sched")) if kk > 1 else None
            pio = make_rec_pio(os.path.join(d, label), case["tile_format"], world, log)
            with warnings.catch_warnings():
                warnings.simplefilter("ignore")
                proc = multi_tan.MultiTanProcessor(collection.load(paths))
                try:
                    proc.compute_global_pixelization(Builder(pio))
                except Exception as e:  # noqa
                    raise Violation("terminates", f"compute_global_pixelization raised {type(e).__name__}: {e}")
                if kk == 1:
                    try:
                        proc.tile(pio, parallel=1)
                    except Exception as e:  # noqa
                        raise Violation("terminates", f"serial tiling raised {type(e).__name__}: {e}")
                else:
                    with scen.critical_section_yields(world):
                        w, res = scen.run_sim(lambda: proc.tile(pio, parallel=kk), None, world=world)
                    judge_termination(desc, res, w)
                    judge_workers(desc, w)
                    if w.leftovers():
                        raise Violation("exactly-once", f"{w.leftovers()} input image(s) left in the queue at return; case {desc}")
                    sim_facts(w, classes)
            logs[label] = C(p for p, _pid in log)
            got, _present = mtgen.read_canvas(pio, levels, case["tile_format"])
            if not np.array_equal(got, canvas_exp, equal_nan=True):
                ne = ~((got == canvas_exp) | (np.isnan(got) & np.isnan(canvas_exp)))
                raise Violation("exactly-once", f"{label} tiling with k={kk}: {int(ne.sum())} pixels of the result differ from the assembled inputs (an input was lost or misplaced); case {desc}")
        if "parallel" in logs and logs["parallel"] != logs["serial"]:
            diff = {p: (logs["serial"].get(p, 0), logs["parallel"].get(p, 0)) for p in set(logs["serial"]) | set(logs["parallel"]) if logs["serial"].get(p, 0) != logs["parallel"].get(p, 0)}
            raise Violation("exactly-once", f"tile updates (serial, parallel) differ: {dict(list(diff.items())[:4])}; case {desc}")
    n = len(case["rects"])
    nt = k >= 2 and (n > 2 * k or (w is not None and (w.timeouts_fired_with_buffered > 0 or w.put_blocked > 0 or w.deviations > 0)))
    return Outcome(classes=classes, nontrivial=bool(nt), info={"items": n})


@st.composite
def strat_multi_tan(draw, tier):
    from .. import mtgen

    case = draw(mtgen.mosaic_cases(tier, max_size=400, max_inputs=8))
    case["k"] = draw(st.sampled_from([2, 2, 3, 4]))
    case["sched"] = draw(scen.schedules(max_size=150))
    return case


# ------------------------------------------------------------------ (d) multi-WCS tiling with a stub reprojection


def write_wcs_inputs(case, d):
    """1-4 small images with slightly different TAN WCS around one sky position"""
    import os
    from astropy.io import fits
    from .. import wcsgen

    paths = []
    for i, im in enumerate(case["images"]):
        w, h = im["size"]
        spec = dict(case["base_wcs"])
        spec["ra"] = (spec["ra"] + im["dra"]) % 360.0
        spec["dec"] = max(-80.0, min(80.0, spec["dec"] + im["ddec"]))
        spec["rot"] = spec["rot"] + im["drot"]
        spec["ratio"] = 1.0
        spec["crpix_mode"] = "half"
        data = np.full((h, w), float(i + 1), dtype=np.float32)
        p = os.path.join(d, f"w{i}.fits")
        fits.writeto(p, data, header=wcsgen.header_of(spec, w, h))
        paths.append(p)
    return paths


def stub_reproject(input_data, output_projection=None, shape_out=None, return_footprint=False, **kw):
    """stands in for reproject.reproject_interp: fills the output with the input's (constant) value"""
    arr, _wcs = input_data
    return np.full(shape_out, float(np.asarray(arr).flat[0]), dtype=np.float64)


def exec_multi_wcs(case):
    import os
    import warnings
    from collections import Counter as C
    from toasty import collection, multi_wcs
    from toasty.builder import Builder
    from ..core import fresh_dir

    k = case["k"]
    desc = {a: b for a, b in case.items() if a != "sched"}
    classes = ["multi_wcs", f"k{k}", f"inputs{len(case['images'])}"]
    logs = {}
    w = None
    with fresh_dir("c03mw-") as d:
        ind = os.path.join(d, "in")
        os.makedirs(ind)
        paths = write_wcs_inputs(case, ind)
        for label, kk in (("serial", 1), ("parallel", k)):
            log = []
            world = SimWorld(case.get("sched")) if kk > 1 else None
            pio = make_rec_pio(os.path.join(d, label), "fits", world, log)
            with warnings.catch_warnings():
                warnings.simplefilter("ignore")
                proc = multi_wcs.MultiWcsProcessor(collection.load(paths))
                try:
                    proc.compute_global_pixelization(Builder(pio))
                except Exception as e:  # noqa
                    # not every generated set of WCS can be combined; that is not this property's subject
                    return Outcome(classes=classes + ["pixelization-refused"], nontrivial=False)
                if kk == 1:
                    try:
                        proc.tile(pio, stub_reproject, parallel=1)
                    except Exception as e:  # noqa
                        raise Violation("terminates", f"serial multi-WCS tiling raised {type(e).__name__}: {e}")
                else:
                    with scen.critical_section_yields(world):
                        w, res = scen.run_sim(lambda: proc.tile(pio, stub_reproject, parallel=kk), None, world=world)
                    judge_termination(desc, res, w)
                    judge_workers(desc, w)
                    if w.leftovers():
                        raise Violation("exactly-once", f"{w.leftovers()} input image(s) left in the queue at return; case {desc}")
                    sim_facts(w, classes)
            logs[label] = C(p for p, _pid in log)
        if logs["parallel"] != logs["serial"]:
            diff = {p: (logs["serial"].get(p, 0), logs["parallel"].get(p, 0)) for p in set(logs["serial"]) | set(logs["parallel"]) if logs["serial"].get(p, 0) != logs["parallel"].get(p, 0)}
            raise Violation("exactly-once", f"multi-WCS tile updates (serial, parallel) differ: {dict(list(diff.items())[:4])}; case {desc}")
    n = len(case["images"])
    nt = k >= 2 and n >= 2 and (w.timeouts_fired_with_buffered > 0 or w.put_blocked > 0 or w.deviations > 0 or n > 2 * k)
    return Outcome(classes=classes, nontrivial=bool(nt), info={"items": n})


@st.composite
def strat_multi_wcs(draw, tier):
    from .. import wcsgen

    base = draw(wcsgen.wcs_specs(projections=("TAN",), max_dec=70, min_scale_log=-2.5, max_scale_log=-2.0, allow_skew=False))
    base["parity"] = 1
    imgs = []
    for _ in range(draw(st.integers(1, 5))):
        imgs.append({"size": [draw(st.integers(8, 60)), draw(st.integers(8, 60))], "dra": draw(st.floats(-0.2, 0.2)), "ddec": draw(st.floats(-0.2, 0.2)), "drot": draw(st.sampled_from([0.0, 1.0, -3.0, 10.0]))})
    return {"base_wcs": base, "images": imgs, "k": draw(st.sampled_from([2, 2, 3, 4])), "sched": draw(scen.schedules(max_size=150))}


def exec_walk_items(case):
    """the walk also hands tiles to workers: same item set as the serial walk (RefPyramid.ops)"""
    from .c01 import exec_walk

    out = exec_walk(case)
    out.classes = ["walk"] + out.classes
    return out


def exec_leaves_real(case):
    """leaf visits on REAL multiprocessing (validates Engine A's verdicts on samples)"""
    import os
    import multiprocessing as mp
    from ..core import fresh_dir
    from ..realmp import FileRecorder, watchdog, WatchdogExpired, reap_children

    ref = scen.ref_of(case)
    k = case["k"]
    desc = dict(case)
    with fresh_dir("c03r-") as d:
        rec = FileRecorder(os.path.join(d, "log"))
        try:
            with watchdog(45):
                scen.make_pyramid(case).visit_leaves(rec.leaf_cb, parallel=k)
        except WatchdogExpired:
            alive = any(c.is_alive() for c in mp.active_children())
            reap_children(1)
            if alive:  # a wall clock alone is never a verdict
                return Outcome(classes=["realmp", "watchdog-inconclusive"], nontrivial=False)
            raise Violation("terminates", f"real visit_leaves still waiting after 45 s although every worker has exited; case {desc}")
        except Exception as e:  # noqa
            raise Violation("terminates", f"real visit_leaves raised {type(e).__name__}: {e}; case {desc}")
        left = [c for c in mp.active_children() if c.is_alive()]
        log = rec.log()
        reap_children()
    starts = [e[1] for e in log if e[0] == "S"]
    ends = [e[1] for e in log if e[0] == "E"]
    judge_items(desc, starts, ref.leaves, "leaf visits (real multiprocessing)")
    if sorted(ends) != sorted(starts):
        raise Violation("fully-processed", f"visit_leaves returned before every leaf callback had completed; case {desc}")
    if left:
        raise Violation("workers-exited", f"visit_leaves returned while {len(left)} workers were still running; case {desc}")
    for e in log:
        if e[0] == "S":
            want = "-" if (case["kind"] == "generic" or case["depth"] == 0) else "%d_%d_%d" % e[1]
            if e[3] != want:
                raise Violation("own-geometry", f"leaf {e[1]} delivered with tile {e[3]}")
    cls = ["realmp", "visit_leaves", case["kind"], f"depth{case['depth']}", f"k{k}"]
    if len(set(e[2] for e in log)) > 1:
        cls.append("multi-worker")
    return Outcome(classes=cls, nontrivial=len(ref.leaves) > 2 * k, info={"items": len(ref.leaves)})


@st.composite
def strat_leaves_real(draw, tier):
    case = draw(scen.pyramid_cases(3, with_k=False, min_depth=1))
    if case.get("apex") is not None and case["apex"][0] > 1:
        case["apex"] = [1, case["apex"][1] % 2, case["apex"][2] % 2]
    case["k"] = draw(st.sampled_from([2, 3, 4]))
    return case


def strat_leaves(tier):
    return scen.pyramid_cases(3 if tier == "quick" else 5, deep_one_in=10)


PARTS = [
    Part(
        "multi_tan_sim",
        exec_multi_tan,
        strategy=strat_multi_tan,
        examples={"quick": 480, "thorough": 8000},
        shards={"quick": 16, "thorough": 16},
        budget_s={"quick": 70, "thorough": 1500},
        engine="A",
        describe="multi-image study tiling: 1-8 generated sub-images handed to 2-4 workers under generated schedules; tile-update log and result vs serial",
    ),
    Part(
        "multi_wcs_sim",
        exec_multi_wcs,
        strategy=strat_multi_wcs,
        examples={"quick": 96, "thorough": 4000},
        shards={"quick": 16, "thorough": 16},
        budget_s={"quick": 70, "thorough": 1500},
        engine="A",
        describe="multi-WCS study tiling with a stub reprojection function: 1-5 generated images handed to 2-4 workers under generated schedules; tile-update log vs serial",
    ),
    Part(
        "walk_items_sim",
        exec_walk_items,
        strategy=lambda tier: scen.pyramid_cases(4 if tier == "quick" else 5, deep_one_in=10),
        examples={"quick": 800, "thorough": 50000},
        shards={"quick": 16, "thorough": 16},
        budget_s={"quick": 60, "thorough": 900},
        engine="A / serial for k=1",
        describe="the walk's distribution of parent tiles to workers (item set = RefPyramid.ops; C01 checks the ordering)",
    ),
    Part(
        "visit_leaves_sim",
        exec_leaves,
        strategy=strat_leaves,
        examples={"quick": 3000, "thorough": 300000},
        shards={"quick": 16, "thorough": 16},
        budget_s={"quick": 60, "thorough": 1200},
        engine="A / serial for k=1",
        describe="leaf visits (the stage behind TOAST sampling) on generated pyramids x k x schedules",
    ),
    Part(
        "visit_leaves_realmp",
        exec_leaves_real,
        strategy=strat_leaves_real,
        examples={"quick": 48, "thorough": 600},
        shards={"quick": 8, "thorough": 16},
        budget_s={"quick": 70, "thorough": 1500},
        shrink=False,
        engine="R (real multiprocessing, callbacks log to an O_APPEND file)",
        describe="leaf visits on real multiprocessing with 2-4 workers",
    ),
    Part(
        "transform_sim",
        exec_transform,
        strategy=strat_transform,
        examples={"quick": 1200, "thorough": 100000},
        shards={"quick": 16, "thorough": 16},
        budget_s={"quick": 60, "thorough": 900},
        engine="A / serial for k=1",
        describe="pyramid-wide transforms u8_to_rgb / f16x3_to_rgb (in place or into a separate output pyramid) over all positions of depth 0..3 with holes x k x schedules",
    ),
]


def extra_coverage(cov_parts):
    return {"traces_validated_against_impl": cov_parts.get("visit_leaves_realmp", {}).get("evaluations", 0)}
