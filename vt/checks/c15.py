"""C15 — Undefined pixels stay undefined: mask semantics and tile persistence."""

import os

import numpy as np
from hypothesis import strategies as st

from ..core import Part, Outcome, Violation, toasty_call, fresh_dir

PROPERTY_ID = "C15"
LEVEL = "exploration"
RULE = (
    "(a) buffer semantics: case = (image mode among the eight, source and buffer shapes, rectangle indexers: slices with "
    "step +1 on x and +-1 on the buffer's y (the reversed form used for bottom-up tiles), or - for fill - paired index arrays "
    "as the chunk sampler uses, undefined regions in source and buffer as generated rectangles, op fill|update). Oracle: a "
    "pure-numpy model of fill (everything outside the addressed pixels undefined, inside = source) and update (outside "
    "untouched; inside: undefined source leaves the pixel, defined source replaces it for colour/float, larger value kept for "
    "non-negative integers); the source image must be unchanged. (b) tile persistence: a generated HISTORY of operations on "
    "one pyramid directory (write defined / partially masked / fully masked tile, read with default none|masked, "
    "read-modify-write update, a file appearing from outside) per (format, mode) able to hold the mode losslessly; model = "
    "dict position -> array; after every step: file exists iff the model holds a not-fully-undefined tile, read-back has "
    "identical pixels, dtype kind/size and ImageMode, a missing tile reads as None or as an all-undefined 256x256 buffer. "
    "Non-trivial: (a) update where source and buffer each have defined and undefined pixels inside the rectangle, or fill with "
    "an undefined source region; (b) a history with a fully-masked write or update result after a defined one."
)
ASSUMPTIONS = [
    "integer data are non-negative (the statement's own restriction); colour pixels with NaN in only some channels (F16x3) are not generated: the statement does not say whether they are defined",
    "updates are applied only to maskable buffers (tiles created through the masked default or written from one), as all in-tree callers do",
]

MODES = ["RGB", "RGBA", "F32", "F64", "F16x3", "U8", "I16", "I32"]


def mode_of(name):
    from toasty.image import ImageMode

    return getattr(ImageMode, name)


DT = {"F32": np.float32, "F64": np.float64, "F16x3": np.float16, "U8": np.uint8, "I16": np.int16, "I32": np.int32, "RGB": np.uint8, "RGBA": np.uint8}


def make_array(mode, h, w, salt, holes):
    """values are a function of (row, col, salt); `holes` = rectangles of undefined pixels"""
    r, c = np.indices((h, w))
    base = (r * 7 + c * 3 + salt * 11) % 97 + 1
    if mode in ("F32", "F64"):
        a = base.astype(DT[mode])
    elif mode == "F16x3":
        a = np.stack([base, base + 1, base + 2], axis=-1).astype(np.float16)
    elif mode in ("U8", "I16", "I32"):
        a = base.astype(DT[mode])
    elif mode == "RGB":
        a = np.stack([base, (base * 2) % 255 + 1, (base * 3) % 255 + 1], axis=-1).astype(np.uint8)
    else:
        a = np.stack([base, (base * 2) % 255 + 1, (base * 3) % 255 + 1, 200 + (base % 55)], axis=-1).astype(np.uint8)
    for (y0, y1, x0, x1, canon) in holes:
        y0, y1 = sorted((y0 % (h + 1), y1 % (h + 1)))
        x0, x1 = sorted((x0 % (w + 1), x1 % (w + 1)))
        if mode in ("F32", "F64", "F16x3"):
            a[y0:y1, x0:x1] = np.nan
        elif mode in ("U8", "I16", "I32"):
            a[y0:y1, x0:x1] = 0
        elif mode == "RGBA":
            if canon:
                a[y0:y1, x0:x1] = 0
            else:
                a[y0:y1, x0:x1, 3] = 0  # transparent with left-over colour
        # RGB has no undefined value
    return a


def undefined_mask(mode_or_buf_kind, a):
    if a.dtype.kind == "f":
        if a.ndim == 3:
            return np.isnan(a).any(axis=2)
        return np.isnan(a)
    if a.ndim == 3:
        if a.shape[2] == 4:
            return a[..., 3] == 0
        return np.zeros(a.shape[:2], dtype=bool)
    return a == 0


def arrays_equal(a, b):
    if a.shape != b.shape:
        return False
    if a.dtype.kind == "f":
        return bool(np.array_equal(a, b, equal_nan=True))
    return bool(np.array_equal(a, b))


def empty_buffer_array(mode, h, w):
    if mode in ("RGB", "RGBA"):
        return np.zeros((h, w, 4), dtype=np.uint8)
    if mode == "F16x3":
        return np.full((h, w, 3), np.nan, dtype=np.float16)
    if mode in ("F32", "F64"):
        return np.full((h, w), np.nan, dtype=DT[mode])
    return np.zeros((h, w), dtype=DT[mode])


def src_as_buffer_pixels(mode, sub):
    """source pixels in the buffer's pixel format"""
    if mode == "RGB":
        out = np.zeros(sub.shape[:-1] + (4,), dtype=np.uint8)
        out[..., :3] = sub
        out[..., 3] = 255
        return out
    return sub


def model_fill(mode, src, bshape, iy, ix, by, bx):
    b = empty_buffer_array(mode, *bshape)
    b[by, bx] = src_as_buffer_pixels(mode, src[iy, ix])
    return b


def model_update(mode, src, buf, iy, ix, by, bx):
    b = buf.copy()
    sub_i = src_as_buffer_pixels(mode, src[iy, ix])
    sub_b = b[by, bx]
    if mode in ("U8", "I16", "I32"):
        new = np.maximum(sub_b, sub_i)
    else:
        und = undefined_mask(mode, src[iy, ix]) if mode != "RGB" else np.zeros(sub_i.shape[:2], dtype=bool)
        m = und if sub_b.ndim == 2 else und[..., None]
        new = np.where(m, sub_b, sub_i)
    b[by, bx] = new
    return b


def to_slice(spec):
    return slice(spec[0], spec[1], spec[2])


def exec_buffer(case):
    from toasty.image import Image

    mode = case["mode"]
    sh, sw = case["src_shape"]
    bh, bw = case["buf_shape"]
    src = make_array(mode, sh, sw, case["salt"], case["src_holes"])
    src0 = src.copy()
    img = Image.from_array(src)
    if img.mode != mode_of(mode):
        raise Violation("mode", f"Image.from_array gave mode {img.mode} for a {mode} array")
    with toasty_call("buffer"):
        buf = mode_of(mode).make_maskable_buffer(bh, bw)
    if case["indexer"] == "slices":
        iy, ix, by, bx = (to_slice(s) for s in case["idx"])
    else:
        iy, ix, by, bx = (np.array(a, dtype=int) for a in case["idx"])
    barr = buf.asarray()
    if case["op"] == "fill":
        # the buffer starts uninitialised: put recognisable garbage in it
        barr[...] = make_array("RGBA" if mode in ("RGB", "RGBA") else mode, bh, bw, case["salt"] + 5, [])
        with toasty_call("fill"):
            img.fill_into_maskable_buffer(buf, iy, ix, by, bx)
        exp = model_fill(mode, src0, (bh, bw), iy, ix, by, bx)
    else:
        bmode = "RGBA" if mode in ("RGB", "RGBA") else mode
        start = make_array(bmode, bh, bw, case["salt"] + 5, case["buf_holes"])
        barr[...] = start
        with toasty_call("update"):
            img.update_into_maskable_buffer(buf, iy, ix, by, bx)
        exp = model_update(mode, src0, start, iy, ix, by, bx)
    got = np.asarray(buf.asarray())
    if not arrays_equal(np.asarray(img.asarray()), src0):
        raise Violation("source-unchanged", f"{case['op']} modified the source image (mode {mode})")
    if not arrays_equal(got, exp):
        ne = ~(np.isclose(got.astype(float), exp.astype(float), equal_nan=True))
        ne2 = ne.any(axis=2) if ne.ndim == 3 else ne
        yy, xx = np.argwhere(ne2)[0]
        inside = np.zeros((bh, bw), dtype=bool)
        inside[by, bx] = True
        where = "inside" if inside[yy, xx] else "OUTSIDE"
        raise Violation(
            case["op"],
            f"{case['op']} of a {mode} image: buffer pixel (row {yy}, col {xx}), {where} the addressed rectangle, is {got[yy, xx].tolist()} but should be {exp[yy, xx].tolist()}; {int(ne2.sum())} pixel(s) differ; indexers {case['idx'] if case['indexer']=='slices' else 'index arrays'}",
        )
    und_s = undefined_mask(mode, src0[iy, ix]) if mode != "RGB" else np.zeros((1, 1), dtype=bool)
    cls = [mode, case["op"], case["indexer"]]
    if case["indexer"] == "slices" and case["idx"][2][2] == -1:
        cls.append("reversed-rows")
    nt = False
    if case["op"] == "update":
        bmode = "RGBA" if mode in ("RGB", "RGBA") else mode
        und_b = undefined_mask(bmode, start[by, bx])
        nt = bool(und_s.any() and (~und_s).any() and und_b.any() and (~und_b).any()) or (mode == "RGB" and bool(und_b.any() and (~und_b).any()))
    else:
        nt = bool(und_s.any()) or mode == "RGB" or case["indexer"] != "slices"
    if exp[by, bx].size == 0:
        cls.append("empty-rectangle")
    return Outcome(classes=cls, nontrivial=nt)


@st.composite
def hole_lists(draw, max_n=3):
    return [
        [draw(st.integers(0, 40)), draw(st.integers(0, 40)), draw(st.integers(0, 40)), draw(st.integers(0, 40)), draw(st.booleans())]
        for _ in range(draw(st.integers(0, max_n)))
    ]


@st.composite
def strat_buffer(draw, tier):
    mode = draw(st.sampled_from(MODES))
    sh, sw = draw(st.integers(1, 24)), draw(st.integers(1, 24))
    bh, bw = draw(st.integers(1, 24)), draw(st.integers(1, 24))
    op = draw(st.sampled_from(["fill", "update", "update"]))
    h = draw(st.integers(1, min(sh, bh)))
    w = draw(st.integers(1, min(sw, bw)))
    if draw(st.integers(0, 11)) == 0:
        # an empty rectangle (a tile that misses the image): nothing is addressed
        if draw(st.booleans()):
            h = 0
        else:
            w = 0
    iy0 = draw(st.integers(0, sh - h))
    ix0 = draw(st.integers(0, sw - w))
    by0 = draw(st.integers(0, bh - h))
    bx0 = draw(st.integers(0, bw - w))
    indexer = "slices"
    if op == "fill" and draw(st.integers(0, 3)) == 0:
        indexer = "arrays"
    if indexer == "slices":
        if draw(st.booleans()) or h == 0:
            by = [by0, by0 + h, 1]
        else:
            stop = by0 - 1
            by = [by0 + h - 1, None if stop < 0 else stop, -1]
        idx = [[iy0, iy0 + h, 1], [ix0, ix0 + w, 1], by, [bx0, bx0 + w, 1]]
    else:
        # paired index arrays: n distinct buffer pixels, each from some source pixel
        n = draw(st.integers(0 if (h == 0 or w == 0) else 1, min(20, bh * bw)))
        cells = draw(st.lists(st.integers(0, bh * bw - 1), min_size=n, max_size=n, unique=True))
        srcs = draw(st.lists(st.integers(0, sh * sw - 1), min_size=n, max_size=n))
        idx = [[s // sw for s in srcs], [s % sw for s in srcs], [c // bw for c in cells], [c % bw for c in cells]]
    return {
        "mode": mode, "src_shape": [sh, sw], "buf_shape": [bh, bw], "op": op, "indexer": indexer, "idx": idx,
        "salt": draw(st.integers(0, 20)), "src_holes": draw(hole_lists()), "buf_holes": draw(hole_lists()),
    }


# ------------------------------------------------------------------ tile persistence histories

FORMAT_MODES = {
    "png": ["RGB", "RGBA"],
    "npy": MODES,
    "fits": ["F32", "F64", "U8", "I16", "I32"],
}
POSITIONS = [(0, 0, 0), (1, 0, 1), (1, 1, 1), (2, 3, 0)]


def tile_array(mode, salt, kind, holes):
    """256x256 tile content. kind: defined | partial | masked"""
    if kind == "infonly" and mode in ("F32", "F64", "F16x3"):
        # no finite pixel at all, but infinities are values, not "undefined"
        a = empty_buffer_array(mode, 256, 256)
        a[(salt * 5) % 256, (salt * 11) % 256] = np.inf
        a[(salt * 7) % 256, (salt * 3) % 256] = -np.inf if salt % 2 else np.inf
        return a
    if kind == "infonly":
        kind = "defined"
    if kind == "black":
        # pure black is a colour like any other: defined (opaque) pixels
        a = make_array(mode, 256, 256, salt, [])
        if mode in ("RGB", "RGBA"):
            a[40 + salt : 90 + salt, 10:200, :3] = 0
        return a
    if kind == "masked":
        if mode == "RGB":
            kind = "defined"
        else:
            return empty_buffer_array(mode, 256, 256) if mode != "RGBA" else np.zeros((256, 256, 4), dtype=np.uint8)
    a = make_array(mode, 256, 256, salt, holes if kind == "partial" else [])
    return a


def fully_undefined(mode, a):
    if mode in ("RGB", "U8", "I16", "I32"):
        return False  # these cannot express "all undefined" as far as storage is concerned
    if a.dtype.kind == "f":
        return bool(np.isnan(a).all())
    return bool((a[..., 3] == 0).all())


def decode_independently(path, fmt):
    if fmt == "npy":
        return np.load(path)
    if fmt == "fits":
        from astropy.io import fits

        with fits.open(path) as h:
            return np.array(h[0].data)
    from PIL import Image as PILImage

    with PILImage.open(path) as im:
        return np.array(im)


def exec_history(case):
    from toasty.pyramid import PyramidIO, Pos
    from toasty.image import Image

    fmt, mode = case["format"], case["mode"]
    bmode = "RGBA" if mode in ("RGB", "RGBA") else mode
    model = {}  # pos -> array as stored
    seen_defined_then_masked = False
    n_steps = 0
    with fresh_dir("c15-") as d:
        explicit = case.get("explicit_format")
        if explicit:
            # the pyramid's default format differs from the one every operation names explicitly
            pio = PyramidIO(d, default_format=("npy" if fmt != "npy" else "png"), scheme=case["scheme"])
            fkw = {"format": fmt}
        else:
            pio = PyramidIO(d, default_format=fmt, scheme=case["scheme"])
            fkw = {}

        if case.get("loader_before"):
            # earlier in the same process an input image was loaded with non-default loader options (as the command-line
            # tools do for --black-to-transparent); tiles are unrelated to that
            import argparse
            from toasty.image import ImageLoader
            from PIL import Image as PILImage

            src_png = os.path.join(d, "input-image.png")
            PILImage.fromarray(make_array("RGB", 8, 8, 3, [])).save(src_png, format="PNG")
            with toasty_call("read", "loading an unrelated input image with --black-to-transparent"):
                ld = ImageLoader.create_from_args(argparse.Namespace(black_to_transparent=True, colorspace_processing=case["loader_before"], psd_single_layer=None, crop=None))
                ld.load_path(src_png)
            os.unlink(src_png)

        def path_of(p):
            return pio.tile_path(Pos(*p), makedirs=False, **fkw)

        def check_all(step):
            for p in POSITIONS:
                exists = os.path.exists(path_of(p))
                if exists != (p in model):
                    raise Violation(
                        "persistence",
                        f"after step {step}: tile {p} file {'exists' if exists else 'is missing'} but the tile is {'stored' if p in model else 'absent / entirely undefined'} in the model ({fmt}/{mode})",
                    )
                if exists:
                    raw = decode_independently(path_of(p), fmt)
                    exp = model[p]
                    if not arrays_equal(np.asarray(raw, dtype=exp.dtype), exp) or raw.dtype.kind != exp.dtype.kind or raw.dtype.itemsize != exp.dtype.itemsize:
                        raise Violation("read-back", f"after step {step}: file of tile {p} decodes to different pixels or dtype ({raw.dtype} {raw.shape}) than written ({exp.dtype} {exp.shape}) ({fmt}/{mode})")

        for si, op in enumerate(case["ops"]):
            n_steps += 1
            p = POSITIONS[op["pos"] % len(POSITIONS)]
            kind = op["op"]
            what = f"step {si} {kind} at {p}"
            if kind == "write":
                arr = tile_array(mode, op["salt"], op["content"], op["holes"])
                with toasty_call("write", what):
                    pio.write_image(Pos(*p), Image.from_array(arr.copy()), **fkw)
                if fully_undefined(mode, arr):
                    if p in model:
                        seen_defined_then_masked = True
                    model.pop(p, None)
                else:
                    model[p] = arr
            elif kind == "write_buffer":
                # write through a maskable buffer (what the tilers do)
                arr = tile_array(mode, op["salt"], op["content"], op["holes"])
                src = Image.from_array(arr.copy())
                buf = mode_of(mode).make_maskable_buffer(256, 256)
                with toasty_call("write", what):
                    src.fill_into_maskable_buffer(buf, slice(0, 256), slice(0, 256), slice(0, 256), slice(0, 256))
                    pio.write_image(Pos(*p), buf, **fkw)
                stored = model_fill(mode, arr, (256, 256), slice(0, 256), slice(0, 256), slice(0, 256), slice(0, 256))
                if fully_undefined(bmode, stored):
                    if p in model:
                        seen_defined_then_masked = True
                    model.pop(p, None)
                else:
                    model[p] = stored
            elif kind == "external":
                arr = tile_array(mode, op["salt"], "defined", [])
                path = pio.tile_path(Pos(*p), **fkw)
                if fmt == "npy":
                    np.save(path, arr)
                elif fmt == "fits":
                    from astropy.io import fits

                    fits.writeto(path, arr, overwrite=True)
                else:
                    from PIL import Image as PILImage

                    PILImage.fromarray(arr).save(path, format="PNG")
                model[p] = arr
            elif kind == "read":
                with toasty_call("read", what):
                    img = pio.read_image(Pos(*p), default=op["default"], masked_mode=mode_of(mode), **fkw)
                if p in model:
                    exp = model[p]
                    if img is None:
                        raise Violation("read-back", f"{what}: stored tile read back as None")
                    got = np.asarray(img.asarray())
                    if not arrays_equal(got.astype(exp.dtype), exp) or got.dtype.kind != exp.dtype.kind or got.dtype.itemsize != exp.dtype.itemsize:
                        raise Violation("read-back", f"{what}: read-back pixels/dtype differ from what was stored ({got.dtype} vs {exp.dtype}) ({fmt}/{mode})")
                    exp_mode = "RGBA" if (exp.ndim == 3 and exp.shape[2] == 4) else mode
                    if img.mode != mode_of(exp_mode):
                        raise Violation("read-back", f"{what}: read-back mode {img.mode}, stored {exp_mode}")
                else:
                    if op["default"] == "none":
                        if img is not None:
                            raise Violation("missing-tile", f"{what}: a missing tile read back as an image")
                    else:
                        if img is None:
                            raise Violation("missing-tile", f"{what}: default='masked' returned None")
                        got = np.asarray(img.asarray())
                        exp = empty_buffer_array(mode, 256, 256)
                        if got.shape != exp.shape or got.dtype != exp.dtype or not arrays_equal(got, exp):
                            raise Violation("missing-tile", f"{what}: default='masked' did not give an all-undefined 256x256 {mode} buffer (shape {got.shape}, dtype {got.dtype})")
            elif kind == "copy":
                # a stored tile is read and written again as it is, at another (or the same) position: what tools that
                # re-arrange or re-save a pyramid do; the image object handed to write_image is the one read_image returned
                q = POSITIONS[op["to"] % len(POSITIONS)]
                with toasty_call("write", what + f" -> {q}"):
                    img = pio.read_image(Pos(*p), default="none", **fkw)
                    if img is not None:
                        pio.write_image(Pos(*q), img, **fkw)
                if (img is None) != (p not in model):
                    raise Violation("missing-tile" if img is not None else "read-back", f"{what}: read_image returned {'an image' if img is not None else 'None'} for a tile that is {'stored' if p in model else 'absent'}")
                if p in model:
                    model[q] = model[p]
            elif kind == "update_noop":
                # a read-modify-write whose body changes nothing
                with toasty_call("update", what):
                    with pio.update_image(Pos(*p), masked_mode=mode_of(mode), default="masked", **fkw) as basis:
                        pass
                if p not in model and not fully_undefined(bmode, empty_buffer_array(mode, 256, 256)):
                    # (integer tiles cannot say "entirely undefined": the all-zero buffer made for the absent tile is stored, as for
                    # any other read-modify-write of such a tile)
                    model[p] = empty_buffer_array(mode, 256, 256)
            elif kind == "update":
                # only on maskable tiles: absent, or stored in the buffer's pixel format
                if p in model and model[p].shape != empty_buffer_array(mode, 1, 1).shape[:0] + (256, 256) + empty_buffer_array(mode, 1, 1).shape[2:]:
                    continue
                arr = tile_array(mode, op["salt"], op["content"], op["holes"])
                y0, x0, hh, ww = op["rect"]
                hh = max(1, min(hh, 256 - y0))
                ww = max(1, min(ww, 256 - x0))
                iy = slice(y0, y0 + hh)
                ix = slice(x0, x0 + ww)
                src = Image.from_array(arr.copy())
                erase = bool(op.get("erase")) and bmode != "RGB"
                with toasty_call("update", what):
                    with pio.update_image(Pos(*p), masked_mode=mode_of(mode), default="masked", **fkw) as basis:
                        if erase:
                            # the body of the read-modify-write makes every pixel undefined: the tile must disappear
                            wa = basis._as_writeable_array()
                            wa[...] = np.nan if wa.dtype.kind == "f" else 0
                        else:
                            src.update_into_maskable_buffer(basis, iy, ix, iy, ix)
                start = model[p] if p in model else empty_buffer_array(mode, 256, 256)
                new = empty_buffer_array(mode, 256, 256) if erase else model_update(mode, arr, start, iy, ix, iy, ix)
                if fully_undefined(bmode, new):
                    if p in model:
                        seen_defined_then_masked = True
                    model.pop(p, None)
                else:
                    model[p] = new
                lock = pio.tile_path(Pos(*p), makedirs=False) + ".lock"
                if os.path.exists(lock):
                    raise Violation("persistence", f"{what}: lock file left behind")
            check_all(si)
    cls = [fmt, mode, case["scheme"]]
    if case.get("explicit_format"):
        cls.append("explicit-format!=default")
    if case.get("loader_before"):
        cls.append("after-a-loader-with-options")
    if any(o.get("content") == "black" for o in case["ops"]):
        cls.append("pure-black-pixels")
    kinds = set(o["op"] for o in case["ops"])
    cls += sorted("op:" + k for k in kinds)
    if seen_defined_then_masked:
        cls.append("masked-after-defined")
    return Outcome(classes=cls, nontrivial=seen_defined_then_masked or ("update" in kinds and "external" in kinds), count=n_steps)


@st.composite
def strat_history(draw, tier):
    fmt = draw(st.sampled_from(["png", "npy", "npy", "fits"]))
    mode = draw(st.sampled_from(FORMAT_MODES[fmt]))
    ops = []
    for _ in range(draw(st.integers(1, 8 if tier == "quick" else 14))):
        kind = draw(st.sampled_from(["write", "write_buffer", "read", "update", "update", "external", "copy", "update_noop"]))
        op = {"op": kind, "pos": draw(st.integers(0, 3))}
        if kind == "copy":
            op["to"] = draw(st.integers(0, 3))
        if kind in ("write", "write_buffer", "update"):
            op["salt"] = draw(st.integers(0, 30))
            op["content"] = draw(st.sampled_from(["defined", "partial", "masked", "masked", "infonly"] + (["black", "black"] if mode in ("RGB", "RGBA") else [])))
            op["holes"] = draw(hole_lists())
            # scale the holes up to tile size
            op["holes"] = [[h[0] * 7, h[1] * 7, h[2] * 7, h[3] * 7, h[4]] for h in op["holes"]]
        if kind == "update":
            op["rect"] = [draw(st.integers(0, 255)), draw(st.integers(0, 255)), draw(st.integers(1, 256)), draw(st.integers(1, 256))]
            if draw(st.integers(0, 5)) == 0:
                op["erase"] = True
        if kind == "external":
            op["salt"] = draw(st.integers(0, 30))
        if kind == "read":
            op["default"] = draw(st.sampled_from(["none", "masked"]))
        ops.append(op)
    case = {"format": fmt, "mode": mode, "scheme": draw(st.sampled_from(["L/Y/YX", "LXY"])), "ops": ops, "explicit_format": draw(st.sampled_from([False, False, True]))}
    if draw(st.integers(0, 3)) == 0:
        case["loader_before"] = draw(st.sampled_from(["srgb", "none"]))
    return case


# ------------------------------------------------------------------ histories on ONE image object


def exec_object_history(case):
    """one destination Image object lives through a generated sequence of fill / update / save / touch
    operations; after every step its array, and every file it is saved to, equal the model"""
    from toasty.image import Image, ImageLoader

    mode = case["mode"]
    bmode = "RGBA" if mode in ("RGB", "RGBA") else mode
    size = 32
    kinds = set()
    with fresh_dir("c15o-") as d:
        if case["dest"] == "maskable":
            buf = mode_of(mode).make_maskable_buffer(size, size)
            buf.asarray()[...] = empty_buffer_array(mode, size, size)
            model = empty_buffer_array(mode, size, size)
        elif case["dest"] == "rgb-array":
            model = make_array("RGB", size, size, 3, [])
            buf = Image.from_array(model.copy())
        else:  # a tile read back from a PNG file (PIL-backed until it is written to)
            from PIL import Image as PILImage

            model = make_array(bmode if case["dest"] == "png-rgba" else "RGB", size, size, 4, [])
            pth = os.path.join(d, "start.png")
            PILImage.fromarray(model).save(pth)
            buf = ImageLoader().load_path(pth)
        for si, op in enumerate(case["ops"]):
            k = op["op"]
            kinds.add(k)
            what = f"step {si} ({k}) on a {case['dest']} {mode} image object"
            if k in ("update", "fill"):
                src_arr = make_array(mode, size, size, op["salt"], [[h[0] % 33, h[1] % 33, h[2] % 33, h[3] % 33, h[4]] for h in op["holes"]])
                src = Image.from_array(src_arr.copy())
                y0, x0, hh, ww = op["rect"]
                hh = max(1, min(hh, size - y0))
                ww = max(1, min(ww, size - x0))
                iy, ix = slice(y0, y0 + hh), slice(x0, x0 + ww)
                if k == "fill" and model.shape == empty_buffer_array(mode, size, size).shape:
                    with toasty_call("fill", what):
                        src.fill_into_maskable_buffer(buf, iy, ix, iy, ix)
                    model = model_fill(mode, src_arr, (size, size), iy, ix, iy, ix)
                else:
                    with toasty_call("update", what):
                        src.update_into_maskable_buffer(buf, iy, ix, iy, ix)
                    if model.ndim == 3 and model.shape[2] == 3 and model.dtype == np.uint8:
                        # an RGB destination without alpha plane: every source pixel is defined
                        model = model.copy()
                        model[iy, ix] = src_arr[iy, ix][..., :3]
                    else:
                        model = model_update(mode, src_arr, model, iy, ix, iy, ix)
            elif k == "touch":
                with toasty_call("touch", what):
                    buf.asarray()
                    _ = buf.dtype, buf.shape, buf.mode
                    if mode in ("RGB", "RGBA"):
                        buf.aspil()
            elif k == "save":
                fmt = op["format"]
                if fmt == "png" and mode not in ("RGB", "RGBA"):
                    fmt = "npy"
                if fmt == "fits" and mode in ("RGB", "RGBA", "F16x3"):
                    fmt = "npy"
                pth = os.path.join(d, f"s{si}.{fmt}")
                with toasty_call("save", what):
                    buf.save(pth, format=fmt)
                raw = np.asarray(decode_independently(pth, fmt))
                if not arrays_equal(raw.astype(model.dtype), model):
                    ne = ~np.isclose(raw.astype(float), model.astype(float), equal_nan=True)
                    ne2 = ne.any(axis=2) if ne.ndim == 3 else ne
                    yy, xx = np.argwhere(ne2)[0]
                    raise Violation("read-back", f"{what}: the file written to {fmt} has pixel (row {yy}, col {xx}) = {raw[yy, xx].tolist()}, the image holds {model[yy, xx].tolist()}; {int(ne2.sum())} pixels differ (stale copy of the pixels?)")
            got = np.asarray(buf.asarray())
            if not arrays_equal(got.astype(model.dtype), model):
                raise Violation(k if k in ("fill", "update") else "object-state", f"{what}: the image's pixels differ from the model after this step")
    seq = "+".join(o["op"] for o in case["ops"])
    nt = "save" in kinds and ("update" in kinds or "fill" in kinds) and seq.count("save") >= 2
    return Outcome(classes=[mode, case["dest"]] + sorted("op:" + k for k in kinds), nontrivial=nt, count=len(case["ops"]))


@st.composite
def strat_object_history(draw, tier):
    # (colour images have the most object state: a PIL side and an array side that must stay in step)
    mode = draw(st.sampled_from(list(MODES) + ["RGB", "RGB", "RGBA"]))
    dests = ["maskable", "maskable"]
    if mode == "RGB":
        dests += ["rgb-array", "rgb-array", "png-rgb", "png-rgba"]
    if mode == "RGBA":
        dests += ["png-rgba"]
    ops = []
    for _ in range(draw(st.integers(2, 7))):
        k = draw(st.sampled_from(["update", "update", "fill", "save", "save", "touch"]))
        op = {"op": k}
        if k in ("update", "fill"):
            op.update(salt=draw(st.integers(0, 30)), holes=draw(hole_lists(2)), rect=[draw(st.integers(0, 31)), draw(st.integers(0, 31)), draw(st.integers(1, 32)), draw(st.integers(1, 32))])
        if k == "save":
            op["format"] = draw(st.sampled_from(["png", "png", "npy", "fits"] if mode in ("RGB", "RGBA") else ["png", "npy", "fits"]))
        ops.append(op)
    return {"mode": mode, "dest": draw(st.sampled_from(dests)), "ops": ops}


PARTS = [
    Part("image_object_histories", exec_object_history, strategy=strat_object_history, examples={"quick": 3200, "thorough": 100000}, shards={"quick": 16, "thorough": 16},
         budget_s={"quick": 60, "thorough": 900}, describe="one Image object through generated sequences of fill / update / save / touch; array and saved files vs the model after every step"),
    Part("buffer_semantics", exec_buffer, strategy=strat_buffer, examples={"quick": 6000, "thorough": 400000}, shards={"quick": 16, "thorough": 16},
         budget_s={"quick": 60, "thorough": 900}, describe="fill/update of maskable buffers in all eight modes against a numpy model"),
    Part("tile_histories", exec_history, strategy=strat_history, examples={"quick": 960, "thorough": 30000}, shards={"quick": 16, "thorough": 16},
         budget_s={"quick": 70, "thorough": 1500}, describe="model-based histories of write / read / update / external file on one pyramid directory"),
]
