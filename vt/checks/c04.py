"""C04 — TOAST tiles partition the sphere, nest exactly, and are route-independent."""

import numpy as np
from hypothesis import strategies as st

from ..core import Part, Outcome, Violation, toasty_call
from .. import refpyramid as rp
from .. import reftoast as rt
from .. import gens

PROPERTY_ID = "C04"
LEVEL = "exploration"
RULE = (
    "cases: (a) for each coordinate system and each depth to 6 (quick) / 8 (thorough) ALL tiles from full enumeration "
    "(both bottom_only modes) compared with the RefToast vertex grid of that level (corners in order ul,ur,lr,ll, diagonal "
    "flag), plus direct structure checks on toasty's own output (one point per shared vertex, children = parent's corners + "
    "edge/diagonal mid-points, deeper vertices on parent edges lie on the edge's great circle) and areas (toast_tile_area = "
    "reference area, children sum to parent, each level sums to 4*pi, depth<=5); (b) generated accepted-set filters through "
    "generate_tiles_filtered; (c) generated positions to depth 24 through create_single_tile; (d) generated points x depth "
    "through toast_tile_for_point, the tile judged for the position it reports; (e) both coordinate systems interleaved in "
    "one process (tiles kept from one system must stay valid while the other is enumerated). Tolerance 1e-12+1e-14*depth rad "
    "on unit vectors. Non-trivial: depth>=2."
)
ASSUMPTIONS = ["RefToast (vt/reftoast.py) is the documented layout: unit-vector great-circle mid-point subdivision of the octahedron"]


def cs_of(planetary):
    from toasty import toast

    return toast.ToastCoordinateSystem.PLANETARY if planetary else toast.ToastCoordinateSystem.ASTRONOMICAL


def tol(n):
    return 1e-12 + 1e-14 * n


def corners_vec(tile):
    c = np.asarray(tile.corners, dtype=float)
    return rt.lonlat_to_vec(c[:, 0], c[:, 1])


def compare_tile(tile, planetary, what):
    n, x, y = tile.pos
    if not (0 <= x < 2**n and 0 <= y < 2**n):
        raise Violation("position", f"{what}: invalid position {tuple(tile.pos)}")
    c, inc = rt.tile_corners(n, x, y, planetary)
    d = rt.ang_dist(c, corners_vec(tile))
    if d.max() > tol(n):
        k = int(d.argmax())
        raise Violation("corners", f"{what}: tile {tuple(tile.pos)} ({'planetary' if planetary else 'astronomical'}) corner {['ul','ur','lr','ll'][k]} is {d.max():.3g} rad from the documented layout")
    if bool(tile.increasing) != inc:
        raise Violation("diagonal", f"{what}: tile {tuple(tile.pos)} reports increasing={tile.increasing}, layout says {inc}")


def compare_level(tiles, n, planetary, what):
    """tiles: list of Tile all at level n. Vectorised comparison against the level grid."""
    g = rt.level_grid(n, planetary)
    pos = np.array([t.pos for t in tiles])
    if len(set(map(tuple, pos.tolist()))) != len(tiles):
        raise Violation("once", f"{what}: a position was produced twice at level {n}")
    x, y = pos[:, 1], pos[:, 2]
    C = np.array([t.corners for t in tiles], dtype=float)  # (N,4,2)
    V = rt.lonlat_to_vec(C[..., 0], C[..., 1])  # (N,4,3)
    ref = np.stack([g[y, x], g[y, x + 1], g[y + 1, x + 1], g[y + 1, x]], axis=1)
    d = rt.ang_dist(ref, V)
    if d.max() > tol(n):
        i, k = np.unravel_index(d.argmax(), d.shape)
        raise Violation("corners", f"{what}: tile {tuple(pos[i])} ({'planetary' if planetary else 'astronomical'}) corner {['ul','ur','lr','ll'][k]} is {d.max():.3g} rad from the documented layout")
    h = 2 ** (n - 1)
    inc_ref = (x // h) == (y // h)
    inc = np.array([bool(t.increasing) for t in tiles])
    if (inc != inc_ref).any():
        i = int(np.nonzero(inc != inc_ref)[0][0])
        raise Violation("diagonal", f"{what}: tile {tuple(pos[i])} reports increasing={inc[i]}")
    return V, pos


def structure_checks(by_level, depth, planetary):
    """direct checks on toasty's own output, independent of RefToast"""
    # one point per shared grid vertex
    for n, (V, pos) in by_level.items():
        m = 2**n
        acc = np.zeros((m + 1, m + 1, 3))
        cnt = np.zeros((m + 1, m + 1))
        x, y = pos[:, 1], pos[:, 2]
        for k, (dx, dy) in enumerate(((0, 0), (1, 0), (1, 1), (0, 1))):
            np.add.at(acc, (y + dy, x + dx), V[:, k])
            np.add.at(cnt, (y + dy, x + dx), 1)
        mean = acc / cnt[..., None]
        mean /= np.linalg.norm(mean, axis=-1, keepdims=True)
        for k, (dx, dy) in enumerate(((0, 0), (1, 0), (1, 1), (0, 1))):
            d = rt.ang_dist(mean[y + dy, x + dx], V[:, k])
            if d.max() > tol(n):
                i = int(d.argmax())
                raise Violation("shared-vertex", f"level {n}: tiles sharing grid vertex {(int(x[i]+dx), int(y[i]+dy))} report different points ({d.max():.3g} rad apart)")
        by_level[n] = (V, pos, mean)
    # nesting: child vertices = parent corners / mid-points; deeper vertices on a parent edge lie on its great circle
    for n in range(1, depth):
        Vp, pp, gp = by_level[n]
        for dn in range(1, min(8, depth - n) + 1):
            gc = by_level[n + dn][2]
            s = 2**dn
            # parent grid vertices coincide with every s-th child grid vertex
            d = rt.ang_dist(gp, gc[::s, ::s])
            if d.max() > tol(n + dn):
                raise Violation("nesting", f"level {n} vertices differ from level {n+dn} vertices by {d.max():.3g} rad")
            # vertices of level n+dn on horizontal parent edges: rows ::s, all columns
            a = gp[:, :-1]  # left end
            b = gp[:, 1:]
            nrm = np.cross(a, b)
            ln = np.linalg.norm(nrm, axis=-1, keepdims=True)
            ok = ln[..., 0] > 1e-9
            nrm = np.where(ln > 0, nrm / np.where(ln > 0, ln, 1), 0)
            for k in range(1, s):
                c = gc[::s, k::s][:, : a.shape[1]]
                off = np.abs(np.einsum("...i,...i->...", nrm, c))
                if (off[ok]).max(initial=0) > tol(n + dn):
                    raise Violation("shared-edge", f"a level-{n+dn} vertex on a horizontal edge of a level-{n} tile is {off[ok].max():.3g} rad off that edge's great circle")
            a = gp[:-1, :]
            b = gp[1:, :]
            nrm = np.cross(a, b)
            ln = np.linalg.norm(nrm, axis=-1, keepdims=True)
            ok = ln[..., 0] > 1e-9
            nrm = np.where(ln > 0, nrm / np.where(ln > 0, ln, 1), 0)
            for k in range(1, s):
                c = gc[k::s, ::s][: a.shape[0], :]
                off = np.abs(np.einsum("...i,...i->...", nrm, c))
                if (off[ok]).max(initial=0) > tol(n + dn):
                    raise Violation("shared-edge", f"a level-{n+dn} vertex on a vertical edge of a level-{n} tile is {off[ok].max():.3g} rad off that edge's great circle")


def exec_bulk(case):
    from toasty import toast

    depth, planetary = case["depth"], case["planetary"]
    cs = cs_of(planetary)
    what = f"generate_tiles(depth={depth})"
    with toasty_call("enumeration"):
        tiles = list(toast.generate_tiles(depth, bottom_only=False, coordsys=cs))
        bottom = list(toast.generate_tiles(depth, bottom_only=True, coordsys=cs))
    if len(tiles) != (4 ** (depth + 1) - 1) // 3 - 1:
        raise Violation("once", f"{what}: {len(tiles)} tiles")
    if len(bottom) != 4**depth:
        raise Violation("once", f"{what} bottom_only: {len(bottom)} tiles")
    by_level = {}
    for n in range(1, depth + 1):
        lv = [t for t in tiles if t.pos.n == n]
        if len(lv) != 4**n:
            raise Violation("once", f"{what}: {len(lv)} tiles at level {n}")
        by_level[n] = compare_level(lv, n, planetary, what)
    compare_level(bottom, depth, planetary, what + " bottom_only")
    structure_checks(by_level, depth, planetary)
    count = len(tiles)
    # areas
    if depth <= case.get("area_depth", 5):
        with toasty_call("area"):
            areas = {tuple(t.pos): float(toast.toast_tile_area(t)) for t in tiles}
        for p, a in areas.items():
            ra = rt.tile_area(*p, planetary=planetary)
            if not abs(a - ra) <= 1e-9 * ra + 1e-15:
                raise Violation("area", f"toast_tile_area of {p} = {a!r}, reference {ra!r}")
        for n in range(1, depth + 1):
            tot = sum(a for p, a in areas.items() if p[0] == n)
            if abs(tot - 4 * np.pi) > 1e-9:
                raise Violation("area-sum", f"areas at level {n} sum to {tot!r}, not 4*pi")
        for p, a in areas.items():
            if p[0] < depth:
                s = sum(areas[c] for c in rp.children(p))
                if abs(s - a) > 1e-9 * a + 1e-15:
                    raise Violation("area-children", f"children of {p} have total area {s!r}, parent {a!r}")
    return Outcome(classes=[f"depth{depth}", "planetary" if planetary else "astronomical", "route:enumeration"], nontrivial=depth >= 2, count=count)


def enum_bulk(tier):
    maxd = 6 if tier == "quick" else 8
    for planetary in (False, True):
        for d in range(1, maxd + 1):
            yield {"depth": d, "planetary": planetary}


def exec_filtered(case):
    from toasty import toast

    depth, planetary = case["depth"], case["planetary"]
    F = gens.filter_fn(case["filter"])
    ref = rp.RefPyramid(depth, F)
    with toasty_call("enumeration"):
        tiles = list(toast.generate_tiles_filtered(depth, lambda t: F(tuple(t.pos)), bottom_only=False, coordsys=cs_of(planetary)))
    exp = set(p for p in ref.reached if p[0] >= 1)
    got = [tuple(t.pos) for t in tiles]
    if sorted(got) != sorted(exp):
        raise Violation("once", f"generate_tiles_filtered produced {len(got)} tiles, {len(exp)} reachable; filter {case['filter']}")
    for t in tiles:
        compare_tile(t, planetary, "generate_tiles_filtered")
    # seen by the filter itself: the tile handed to the filter must be the tile of that position
    seen = []

    def spy(t):
        seen.append(t)
        return F(tuple(t.pos))

    with toasty_call("enumeration"):
        list(toast.generate_tiles_filtered(depth, spy, bottom_only=True, coordsys=cs_of(planetary)))
    for t in seen:
        compare_tile(t, planetary, "tile handed to the filter")
    cls = [f"depth{depth}", "route:filtered", "planetary" if planetary else "astronomical"]
    n_box = 0
    if case.get("box"):
        # the same route under the library's own latitude/longitude box filter (a filter that inspects the corners): whichever
        # tiles it lets through (C07's subject), each must be the tile of the position it reports
        from toasty import samplers

        make = getattr(samplers, "_latlon_tile_filter", None)
        if make is not None:
            with toasty_call("enumeration", "generate_tiles_filtered under a lat/lon box filter"):
                flt = make(*case["box"])
                bt = list(toast.generate_tiles_filtered(min(depth, 4), flt, bottom_only=False, coordsys=cs_of(planetary)))
            for t in bt:
                compare_tile(t, planetary, f"generate_tiles_filtered under the box filter {case['box']}")
            n_box = len(bt)
            cls.append("box-filter")
    return Outcome(classes=cls, nontrivial=depth >= 2 and len(tiles) > 0, count=len(tiles) + n_box)


@st.composite
def strat_filtered(draw, tier):
    depth = draw(st.integers(1, 5 if tier == "quick" else 7))
    case = {"depth": depth, "planetary": draw(st.booleans()), "filter": draw(gens.filter_specs(depth))}
    if draw(st.integers(0, 2)) == 0:
        import math

        lon0 = draw(st.floats(-math.pi, 2 * math.pi))
        lat0 = draw(st.floats(-1.4, 1.2))
        case["box"] = [lon0, lon0 + draw(st.floats(0.2, 4.0)), lat0, min(math.pi / 2, lat0 + draw(st.floats(0.1, 2.0)))]
    return case


def exec_single(case):
    from toasty import toast
    from toasty.pyramid import Pos

    planetary = case["planetary"]
    cls = ["route:single", "planetary" if planetary else "astronomical"]
    nt = False
    for p in case["positions"]:
        with toasty_call("single-tile"):
            t = toast.create_single_tile(Pos(*p), coordsys=cs_of(planetary))
        if tuple(t.pos) != tuple(p):
            raise Violation("position", f"create_single_tile({p}) returned position {tuple(t.pos)}")
        compare_tile(t, planetary, "create_single_tile")
        nt = nt or p[0] >= 2
        cls.append(f"n>={8 * (p[0] // 8)}")
    return Outcome(classes=sorted(set(cls)), nontrivial=nt, count=len(case["positions"]))


@st.composite
def strat_single(draw, tier):
    maxd = 24
    n_pos = draw(st.integers(1, 4))
    ps = []
    for _ in range(n_pos):
        n = draw(st.integers(1, maxd))
        m = 2**n
        mode = draw(st.sampled_from(["uniform", "border", "related", "pole"]))
        if mode == "related" and ps:
            # the same x/y numbers at another level, or a child/parent (order-dependent caches)
            q = ps[-1]
            n = draw(st.integers(1, maxd))
            m = 2**n
            ps.append([n, q[1] % m, q[2] % m])
            continue
        if mode == "pole":
            # tiles touching or next to a pole: the centre of the square (north) or its corners (south)
            if draw(st.booleans()):
                c = 2 ** (n - 1)
                x = min(m - 1, max(0, c + draw(st.integers(-2, 1))))
                y = min(m - 1, max(0, c + draw(st.integers(-2, 1))))
            else:
                x = draw(st.sampled_from([0, 1, m - 1, max(0, m - 2)]))
                y = draw(st.sampled_from([0, 1, m - 1, max(0, m - 2)]))
        elif mode == "border":
            h = 2 ** draw(st.integers(0, n - 1)) if n > 1 else 1
            x = (h + draw(st.integers(-1, 0))) % m
            y = (h + draw(st.integers(-1, 0))) % m
        else:
            x = draw(st.integers(0, m - 1))
            y = draw(st.integers(0, m - 1))
        ps.append([n, x, y])
    return {"planetary": draw(st.booleans()), "positions": ps}


def exec_lookup(case):
    from toasty import toast

    planetary = case["planetary"]
    pt = case["point"]
    lon = pt["lon"] + 2 * np.pi * pt["turns"]
    depth = case["depth"]
    with toasty_call("point-lookup"):
        t = toast.toast_tile_for_point(depth, pt["lat"], lon, coordsys=cs_of(planetary))
    if depth == 0:
        if tuple(t.pos) != (0, 0, 0):
            raise Violation("position", f"depth-0 lookup returned {tuple(t.pos)}")
        return Outcome(classes=["route:lookup", "depth0"], nontrivial=False)
    if t.pos.n != depth:
        raise Violation("position", f"lookup at depth {depth} returned a tile of level {t.pos.n}")
    compare_tile(t, planetary, "toast_tile_for_point")
    return Outcome(classes=["route:lookup", f"depth{depth}", "planetary" if planetary else "astronomical", pt["kind"]], nontrivial=depth >= 2)


@st.composite
def strat_lookup(draw, tier):
    return {"planetary": draw(st.booleans()), "depth": draw(st.one_of(st.integers(0, 10), st.integers(11, 26))), "point": draw(gens.sky_points())}


def exec_interleaved(case):
    """tiles obtained for one coordinate system must not change when the other system is used"""
    from toasty import toast
    from toasty.pyramid import Pos

    depth = case["depth"]
    first = case["first_planetary"]
    with toasty_call("enumeration"):
        if case["mode"] == "zip":
            ga = toast.generate_tiles(depth, bottom_only=False, coordsys=cs_of(first))
            gb = toast.generate_tiles(depth, bottom_only=False, coordsys=cs_of(not first))
            A, B = [], []
            for ta, tb in zip(ga, gb):
                A.append(ta)
                B.append(tb)
        elif case["mode"] == "pyramids":
            # two pyramid objects, one per system, both created before either is visited
            from toasty.pyramid import Pyramid

            pa = Pyramid.new_toast(depth, coordsys=cs_of(first))
            pb = Pyramid.new_toast(depth, coordsys=cs_of(not first))
            A, B = [], []
            pa.visit_leaves(lambda pos, tile: A.append(tile), parallel=1)
            pb.visit_leaves(lambda pos, tile: B.append(tile), parallel=1)
            if len(A) != 4**depth or len(B) != 4**depth:
                raise Violation("enumeration", f"visit_leaves of two depth-{depth} pyramids visited {len(A)} and {len(B)} leaves")
        else:
            A = list(toast.generate_tiles(depth, bottom_only=False, coordsys=cs_of(first)))
            single = toast.create_single_tile(Pos(*case["pos"]), coordsys=cs_of(first))
            B = list(toast.generate_tiles(depth, bottom_only=False, coordsys=cs_of(not first)))
            toast.toast_tile_for_point(depth, 0.3, 1.0, coordsys=cs_of(not first))
            compare_tile(single, first, "create_single_tile (kept while the other system was used)")
    for t in A:
        compare_tile(t, first, "tiles of one system kept while the other system is enumerated")
    for t in B:
        compare_tile(t, not first, "tiles of the second system")
    return Outcome(classes=["interleaved", case["mode"], f"depth{depth}"], nontrivial=depth >= 2, count=len(A) + len(B))


@st.composite
def strat_interleaved(draw, tier):
    depth = draw(st.integers(1, 4))
    return {"depth": depth, "first_planetary": draw(st.booleans()), "mode": draw(st.sampled_from(["zip", "keep", "pyramids"])), "pos": draw(gens.positions(depth, 1))}


def planar_tile_area(n, x, y, planetary):
    """area of a small tile from its two triangles' edge vectors (relative error ~ the tile's area, < 5e-6 from level 10 on;
    the spherical-excess formula loses digits for tiny triangles)"""
    c, inc = rt.tile_corners(n, x, y, planetary)
    ul, ur, lr, ll = c

    def tri(a, b, cc):
        return 0.5 * float(np.linalg.norm(np.cross(b - a, cc - a)))

    return tri(ul, ur, ll) + tri(ur, lr, ll) if inc else tri(ul, ur, lr) + tri(ul, lr, ll)


def exec_deep_area(case):
    """areas of deep tiles (levels 11-20), biased to the special geometry: next to a pole, on the seam, on the quadrant
    lines and diagonals. toast_tile_area agrees with the reference to 3e-5 there on the unchanged tree [observed]; the
    tolerance is 2e-3, and the four children must add up to the parent within 4e-3."""
    from toasty import toast
    from toasty.pyramid import Pos

    n, x, y = case["pos"]
    planetary = case["planetary"]
    with toasty_call("area", f"area of tile {(n, x, y)}"):
        a = float(toast.toast_tile_area(toast.create_single_tile(Pos(n, x, y), coordsys=cs_of(planetary))))
    ref = planar_tile_area(n, x, y, planetary)
    if not np.isfinite(a) or a <= 0 or abs(a - ref) > 2e-3 * ref:
        raise Violation("area", f"toast_tile_area of {(n, x, y)} ({'planetary' if planetary else 'astronomical'}) = {a!r}, reference {ref!r}")
    if case.get("children"):
        with toasty_call("area", f"areas of the children of {(n, x, y)}"):
            tot = sum(float(toast.toast_tile_area(toast.create_single_tile(Pos(*c), coordsys=cs_of(planetary)))) for c in rp.children((n, x, y)))
        if not np.isfinite(tot) or abs(tot - a) > 4e-3 * a:
            raise Violation("area-children", f"children of {(n, x, y)} ({'planetary' if planetary else 'astronomical'}) have total area {tot!r}, parent {a!r}")
    return Outcome(classes=[f"level{n}", case["where"], "planetary" if planetary else "astronomical"], nontrivial=True)


@st.composite
def strat_deep_area(draw, tier):
    n = draw(st.integers(11, 20))
    m = 2**n
    h = m // 2
    d = draw(st.integers(0, 24))
    e = draw(st.integers(0, 24))
    r = draw(st.integers(0, m - 1))
    where = draw(st.sampled_from(["north-pole", "south-pole", "quadrant-line", "diagonal", "square-edge", "anywhere"]))
    if where == "north-pole":
        x, y = draw(st.sampled_from([h + d, h - 1 - d])), draw(st.sampled_from([h + e, h - 1 - e]))
    elif where == "south-pole":
        x, y = draw(st.sampled_from([d, m - 1 - d])), draw(st.sampled_from([e, m - 1 - e]))
    elif where == "quadrant-line":
        x, y = draw(st.sampled_from([(draw(st.sampled_from([h + d, h - 1 - d])), r), (r, draw(st.sampled_from([h + d, h - 1 - d])))]))
    elif where == "diagonal":
        x, y = draw(st.sampled_from([(r, r), (r, m - 1 - r), (min(m - 1, r + d), r), (r, max(0, m - 1 - r - d))]))
    elif where == "square-edge":
        x, y = draw(st.sampled_from([(d, r), (m - 1 - d, r), (r, d), (r, m - 1 - d)]))
    else:
        x, y = r, draw(st.integers(0, m - 1))
    return {"pos": [n, int(x) % m, int(y) % m], "planetary": draw(st.booleans()), "where": where, "children": draw(st.booleans())}


PARTS = [
    Part("all_tiles", exec_bulk, enumerate=enum_bulk, shards={"quick": 12, "thorough": 16}, budget_s={"quick": 80, "thorough": 1500},
         describe="every tile of every level to depth 6/8, both systems, full enumeration route; structure and area checks"),
    Part("filtered_route", exec_filtered, strategy=strat_filtered, examples={"quick": 600, "thorough": 20000}, shards={"quick": 8, "thorough": 16},
         describe="generate_tiles_filtered under generated accepted-set filters; tiles yielded and tiles handed to the filter"),
    Part("single_tile_route", exec_single, strategy=strat_single, examples={"quick": 4000, "thorough": 200000}, shards={"quick": 8, "thorough": 16},
         describe="create_single_tile at generated positions to depth 24 (sequences of 1-4 related positions per case)"),
    Part("point_lookup_route", exec_lookup, strategy=strat_lookup, examples={"quick": 3000, "thorough": 100000}, shards={"quick": 8, "thorough": 16},
         describe="toast_tile_for_point at generated points and depths; the tile is judged for the position it reports"),
    Part("interleaved_systems", exec_interleaved, strategy=strat_interleaved, examples={"quick": 240, "thorough": 3000}, shards={"quick": 4, "thorough": 16},
         describe="both coordinate systems used alternately in one process"),
    Part("deep_areas", exec_deep_area, strategy=strat_deep_area, examples={"quick": 2400, "thorough": 100000}, shards={"quick": 8, "thorough": 16},
         describe="toast_tile_area of tiles at levels 11-20 next to the poles, on the seam / quadrant lines / diagonals / square edges, and anywhere: against the reference (2e-3) and against the sum of the four children (4e-3)"),
]
PARTS[0].exhaustive_tiers = {"quick", "thorough"}
