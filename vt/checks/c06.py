"""C06 — TOAST sampling writes the sampler's values at each tile's own pixel centres."""

import os

import numpy as np
from hypothesis import strategies as st

from ..core import Part, Outcome, Violation, HarnessError, toasty_call, fresh_dir
from .. import refpyramid as rp
from .. import reftoast as rt
from .. import gens, scen
from ..simsched import SimWorld, SimUnsupported
from .c15 import decode_independently

PROPERTY_ID = "C06"
LEVEL = "exploration"
RULE = (
    "case = (depth 0..3 (thorough 4), coordinate system, tile format/mode among npy:F64,F32,RGB,RGBA; fits:F64,F32; png:RGB,RGBA; "
    "jpg:RGB, a HISTORY of 1-2 sampling calls on one pyramid: sample_layer (clobber, all tiles) or sample_layer_filtered (update "
    "mode, generated accepted-set filter), each with its own harness sampler; worker count k, schedule). Samplers are smooth "
    "functions of the unit vector of (lon, lat): scalar v.w for a generated weight vector, colour floor((v.w+1)*127.5); float and "
    "RGBA samplers are undefined (NaN / alpha 0) outside a generated spherical cap. Oracle: for every position that RefPyramid "
    "calls a leaf of the call's filter, the tile file (decoded independently, FITS rows reversed) equals the sampler evaluated at "
    "RefToast's pixel centres of THAT position in the requested coordinate system (F64 atol 1e-9, F32 1e-6, colour +-1, jpg +-8); "
    "in update mode an undefined new sample leaves the earlier pixel, a defined one replaces it; a tile exists iff its final "
    "content is not entirely undefined; no other file exists at that depth. k>=2 runs on Engine A with a generated schedule, "
    "real multiprocessing in part realmp. Non-trivial: depth 0, or depth>=1 with >=2 tiles written."
)
ASSUMPTIONS = [
    "RefToast pixel centres (C05) define where a tile's pixels are on the sky; depth 0 = the 256x256 grid of level-8 tile centres",
    "jpg is judged approximately on grey smooth fields",
]

FORMAT_MODES = {"npy": ["F64", "F32", "RGB", "RGBA"], "fits": ["F64", "F32"], "png": ["RGB", "RGBA"], "jpg": ["RGB"]}


def cs_of(planetary):
    from toasty import toast

    return toast.ToastCoordinateSystem.PLANETARY if planetary else toast.ToastCoordinateSystem.ASTRONOMICAL


def field(vec, spec, mode):
    """the sampler's value for unit vectors vec (...,3)"""
    w = np.array(spec["w"], dtype=float)
    s = vec @ w  # in [-|w|, |w|], |w| <= 1
    if mode in ("F64", "F32"):
        val = (s * spec.get("gain", 1.0)).astype(np.float64)
        if spec.get("inf_above") is not None:
            # an overflowing region: +inf is a defined value (only NaN means undefined)
            val = np.where(s > spec["inf_above"], np.inf, val)
        if spec.get("cap"):
            c = np.array(spec["cap"]["c"], dtype=float)
            inside = vec @ (c / np.linalg.norm(c)) > spec["cap"]["cos"]
            val = np.where(inside, val, np.nan)
        return val.astype(np.float32 if mode == "F32" else np.float64)
    g = np.clip(np.floor((s + 1.0) * 127.5), 0, 255).astype(np.uint8)
    if mode == "RGB":
        return np.stack([g, g, g], axis=-1)
    a = np.full(g.shape, 255, dtype=np.uint8)
    if spec.get("soft_alpha"):
        # partially transparent samples (anti-aliased overlays): alpha anywhere in 1..254, a value like any other
        a = (1 + (g.astype(np.int64) * 7 + 13) % 254).astype(np.uint8)
    out = np.stack([g, g, g, a], axis=-1)
    if spec.get("cap"):
        c = np.array(spec["cap"]["c"], dtype=float)
        inside = vec @ (c / np.linalg.norm(c)) > spec["cap"]["cos"]
        out[~inside] = 0
    return out


def ambiguous(vec, spec):
    """pixels within rounding distance of the cap boundary: the sampler's definedness there
    depends on the last bit of the coordinates, so they are not judged"""
    out = np.zeros(vec.shape[:-1], dtype=bool)
    if spec.get("inf_above") is not None:
        out |= np.abs(vec @ np.array(spec["w"], dtype=float) - spec["inf_above"]) < 1e-9
    if not spec.get("cap"):
        return out
    c = np.array(spec["cap"]["c"], dtype=float)
    return out | (np.abs(vec @ (c / np.linalg.norm(c)) - spec["cap"]["cos"]) < 1e-9)


def make_sampler(spec, mode):
    def sampler(lon, lat):
        return field(rt.lonlat_to_vec(lon, lat), spec, mode)

    return sampler


def ref_pixels(pos, planetary):
    n, x, y = pos
    if n == 0:
        g = rt.level_grid(1, planetary)  # 3x3 vertices
        out = np.empty((256, 256, 3))
        for qy in (0, 1):
            for qx in (0, 1):
                out[128 * qy : 128 * qy + 128, 128 * qx : 128 * qx + 128] = rt.pixel_centres(1, qx, qy, planetary, npix_log2=7)
        return out
    return rt.pixel_centres(n, x, y, planetary)


def undefined(a):
    if a.dtype.kind == "f":
        return np.isnan(a)
    if a.ndim == 3 and a.shape[2] == 4:
        return a[..., 3] == 0
    return np.zeros(a.shape[:2], dtype=bool)


def run_call(pio, call, case, k, sched, real):
    from toasty import toast

    cs = cs_of(case["planetary"])
    sampler = make_sampler(call["sampler"], case["mode"])
    depth = case["depth"]
    via = call.get("via")
    if via:
        # the same two entry points reached through Builder.toast_base: the coordinate system is requested either through
        # `is_planet` alone or through an explicit `coordsys` (which then is the request, whatever `is_planet` says)
        from toasty.builder import Builder

        kw = {"parallel": k, "is_planet": bool(via["is_planet"]) if via["explicit"] else bool(case["planetary"])}
        if via["explicit"]:
            kw["coordsys"] = cs
        if call["kind"] != "clobber":
            F = gens.filter_fn(call["filter"])
            kw["tile_filter"] = lambda t: F(tuple(t.pos))
        fn = lambda: Builder(pio).toast_base(sampler, depth, **kw)
        what = f"Builder.toast_base(depth={depth}, is_planet={kw['is_planet']}, {'coordsys=' + ('planetary' if case['planetary'] else 'astronomical') if via['explicit'] else 'no coordsys'}, {call['kind']}, {case['format']}/{case['mode']}, parallel={k})"
    elif call["kind"] == "clobber":
        fn = lambda: toast.sample_layer(pio, sampler, depth, coordsys=cs, parallel=k)
    else:
        F = gens.filter_fn(call["filter"])
        fn = lambda: toast.sample_layer_filtered(pio, lambda t: F(tuple(t.pos)), sampler, depth, coordsys=cs, parallel=k)
    if not via:
        what = f"{'sample_layer' if call['kind'] == 'clobber' else 'sample_layer_filtered'}(depth={depth}, {'planetary' if case['planetary'] else 'astronomical'}, {case['format']}/{case['mode']}, parallel={k})"
    if k == 1 or real:
        with toasty_call("sampling", what):
            fn()
        return None
    w = SimWorld(sched)
    w, res = scen.run_sim(fn, None, world=w)
    if res["status"] == "hang":
        raise Violation("sampling", f"{what} never returns: {res['hang']}")
    if res["status"] == "raised":
        if isinstance(res["exc"], SimUnsupported):
            raise res["exc"]
        raise Violation("sampling", f"{what} raised {type(res['exc']).__name__}: {res['exc']}; {w.stderr.getvalue()[-500:]}")
    if res["status"] != "returned":
        raise HarnessError("simulation inconclusive")
    return w


def exec_case(case, real=False):
    from toasty.pyramid import PyramidIO, Pos

    fmt, mode, depth, planetary = case["format"], case["mode"], case["depth"], case["planetary"]
    k = case["k"]
    model = {}  # pos -> display-orientation array
    amb = {}  # pos -> mask of pixels not judged
    n_written = 0
    fault = case.get("read_fault") if not real else None
    fault_fired = {"n": 0, "fired": False}
    reported = False
    with fresh_dir("c06-") as d:
        pio = PyramidIO(d, default_format=fmt)
        if case.get("warmup"):
            # the process has sampled a layer of the same depth in the OTHER coordinate system before (another pyramid)
            from toasty import toast as _toast

            with toasty_call("sampling", "sampling a layer of the same depth in the other coordinate system beforehand"):
                _toast.sample_layer(PyramidIO(os.path.join(d, "warmup-other-system"), default_format="npy"), make_sampler({"w": [0.1, 0.2, 0.97]}, "F32"), depth,
                                    coordsys=cs_of(not planetary), parallel=1)
            pio = PyramidIO(os.path.join(d, "main"), default_format=fmt)
        for ci, call in enumerate(case["calls"]):
            if fault and fault[0] == ci and call["kind"] != "clobber":
                # one transient I/O error (EIO) at the fault[1]-th tile read of this updating call: the call may fail - visibly -
                # but if it returns normally the layer has to be what the model says
                import errno
                from toasty.image import ImageLoader

                orig_load = ImageLoader.load_path

                def load_path(self, path, _o=orig_load):
                    fault_fired["n"] += 1
                    if fault_fired["n"] == fault[1] and not fault_fired["fired"] and os.path.exists(path):
                        fault_fired["fired"] = True
                        raise OSError(errno.EIO, "Input/output error (injected by the harness)", path)
                    return _o(self, path)

                ImageLoader.load_path = load_path
                try:
                    run_call(pio, call, case, k, case.get("sched"), real)
                except Violation as v:
                    if fault_fired["fired"] and v.clause == "sampling" and " raised " in v.msg:
                        reported = True  # the failure was reported to the caller; what is on disk is not judged
                        break
                    raise
                finally:
                    ImageLoader.load_path = orig_load
            else:
                run_call(pio, call, case, k, case.get("sched"), real)
            if call["kind"] == "clobber":
                leaves = set(rp.all_positions(depth)) if depth == 0 else set(p for p in rp.all_positions(depth) if p[0] == depth)
            else:
                leaves = rp.RefPyramid(depth, gens.filter_fn(call["filter"])).leaves
            for p in sorted(leaves):
                rp_ = ref_pixels(p, planetary)
                new = field(rp_, call["sampler"], mode)
                a_new = ambiguous(rp_, call["sampler"]) if mode != "RGB" else np.zeros(new.shape[:2], dtype=bool)
                amb[p] = a_new if (call["kind"] == "clobber" or p not in amb) else (amb[p] | a_new)
                if call["kind"] == "clobber" or p not in model:
                    if call["kind"] != "clobber" and mode == "RGB" and fmt != "jpg":
                        # update mode creates the tile from a maskable (RGBA) buffer
                        new = np.concatenate([new, np.full(new.shape[:2] + (1,), 255, np.uint8)], axis=-1)
                    cur = new
                else:
                    old = model[p]
                    if mode == "RGB":
                        cur = old.copy()
                        cur[..., :3] = new
                        if cur.shape[2] == 4:
                            cur[..., 3] = 255
                    else:
                        und = undefined(new)
                        cur = np.where(und if new.ndim == 2 else und[..., None], old, new)
                if undefined(cur).all():
                    model.pop(p, None)
                else:
                    model[p] = cur
            n_written += len(leaves)
            # compare the whole layer after every call
            what = f"after call {ci} ({call['kind']}) of {fmt}/{mode} depth {depth} {'planetary' if planetary else 'astronomical'} k={k}"
            for p in (rp.all_positions(depth)):
                if p[0] != depth:
                    continue
                path = pio.tile_path(Pos(*p), makedirs=False)
                exists = os.path.exists(path)
                if exists != (p in model):
                    decidable = True
                    a = amb.get(p)
                    if a is not None and a.any():
                        # existence hinges on pixels whose definedness is a matter of the last bit
                        if p not in model or undefined(model[p])[~a].all():
                            decidable = False
                    if decidable:
                        raise Violation("existence", f"{what}: tile {p} {'exists but should not (not a leaf of the filter, or entirely undefined)' if exists else 'is missing'}")
                if not exists:
                    continue
                if p not in model:
                    continue
                got = np.asarray(decode_independently(path, fmt))
                if fmt == "fits":
                    got = got[::-1]
                exp = model[p]
                if fmt == "jpg":
                    exp = exp[..., :3]
                if got.shape != exp.shape:
                    raise Violation("pixels", f"{what}: tile {p} has shape {got.shape}, expected {exp.shape}")
                if exp.dtype.kind == "f":
                    if got.dtype.kind != "f" or got.dtype.itemsize != exp.dtype.itemsize:
                        raise Violation("pixels", f"{what}: tile {p} stored as {got.dtype}")
                    # the sampler is evaluated at coordinates that may differ in the last bit: 1e-9 (F64) / a
                    # couple of float32 ulps (F32), scaled by the largest gain of any sampler used so far
                    atol = 1e-9 if mode == "F64" else 1e-6
                    gmax = max(c_["sampler"].get("gain", 1.0) for c_ in case["calls"][: ci + 1])
                    bad = ~np.isclose(got.astype(np.float64), exp.astype(np.float64), rtol=0 if mode == "F64" else 2.4e-7, atol=atol * gmax, equal_nan=True)
                else:
                    t = 8 if fmt == "jpg" else 1
                    bad = (np.abs(got.astype(int) - exp.astype(int)) > t)
                    bad = bad.any(axis=2) if bad.ndim == 3 else bad
                if p in amb:
                    bad = bad & ~amb[p]
                if bad.any():
                    yy, xx = np.argwhere(bad)[0]
                    hint = ""
                    if exp.shape[0] == exp.shape[1]:
                        e2 = exp[::-1]
                        if exp.dtype.kind == "f":
                            if np.isclose(got.astype(float), e2.astype(float), atol=1e-6, equal_nan=True).all():
                                hint = " (the tile is vertically flipped)"
                    raise Violation(
                        "pixels",
                        f"{what}: tile {p} pixel (row {yy}, col {xx}) = {got[yy, xx].tolist()}, the sampler at that pixel's centre gives {exp[yy, xx].tolist()}; {int(bad.sum())} pixels differ{hint}",
                    )
            locks = [f for _r, _d, fs in os.walk(d) for f in fs if f.endswith(".lock")]
    cls = [fmt, mode, f"depth{depth}", "planetary" if planetary else "astronomical", f"k{k}", "+".join(c["kind"] for c in case["calls"])]
    if any(c.get("via") for c in case["calls"]):
        cls.append("through-Builder.toast_base")
    if any(c_["sampler"].get("soft_alpha") for c_ in case["calls"]):
        cls.append("partially-transparent-samples")
    if fmt == "fits":
        cls.append("bottom-up")
    if case.get("warmup"):
        cls.append("other-system-sampled-first")
    if fault_fired["fired"]:
        cls.append("read-fault-reported" if reported else "read-fault-survived")
    return Outcome(classes=cls, nontrivial=depth == 0 or n_written >= 2, info={"tiles": n_written})


def exec_real(case):
    return exec_case(case, real=True)


@st.composite
def sampler_specs(draw, mode):
    w = [draw(st.floats(-1, 1)) for _ in range(3)]
    n = (w[0] ** 2 + w[1] ** 2 + w[2] ** 2) ** 0.5
    if n < 0.2:
        w = [0.3, -0.5, 0.7]
        n = (0.09 + 0.25 + 0.49) ** 0.5
    spec = {"w": [c / n * 0.999 for c in w]}
    if mode in ("F64", "F32"):
        spec["gain"] = draw(st.sampled_from([1.0, 100.0]))
        if draw(st.integers(0, 4)) == 0:
            spec["inf_above"] = draw(st.sampled_from([-2.0, -0.5, 0.0, 0.3, 0.8]))
    if mode == "RGBA" and draw(st.integers(0, 2)) == 0:
        spec["soft_alpha"] = True
    if mode in ("F64", "F32", "RGBA") and draw(st.integers(0, 2)) > 0:
        c = [draw(st.floats(-1, 1)) for _ in range(3)]
        if sum(abs(v) for v in c) < 0.1:
            c = [0.0, 0.0, 1.0]
        spec["cap"] = {"c": c, "cos": draw(st.sampled_from([0.0, 0.5, 0.9, -0.5, 0.99]))}
    return spec


@st.composite
def strat(draw, tier, real=False):
    fmt = draw(st.sampled_from(["npy", "npy", "fits", "fits", "png", "jpg"]))
    mode = draw(st.sampled_from(FORMAT_MODES[fmt]))
    depth = draw(st.sampled_from([0, 1, 1, 2, 2, 3] if tier == "quick" else [0, 1, 2, 2, 3, 3, 4]))
    calls = []
    for i in range(draw(st.integers(1, 2))):
        kind = draw(st.sampled_from(["clobber", "update", "update"]))
        call = {"kind": kind, "sampler": draw(sampler_specs(mode))}
        if kind == "update":
            call["filter"] = draw(gens.filter_specs(depth))
        if draw(st.integers(0, 3)) == 0:
            call["via"] = {"explicit": draw(st.booleans()), "is_planet": draw(st.booleans())}
        calls.append(call)
    k = draw(st.sampled_from([2, 3, 4])) if real else draw(st.sampled_from([1, 1, 2, 3, 4]))
    case = {"format": fmt, "mode": mode, "depth": depth, "planetary": draw(st.booleans()), "calls": calls, "k": k}
    if k > 1 and not real:
        case["sched"] = draw(scen.schedules(max_size=100))
    if draw(st.integers(0, 3)) == 0:
        case["warmup"] = True
    if not real and len(calls) == 2 and calls[1]["kind"] == "update" and draw(st.booleans()):
        case["read_fault"] = [1, draw(st.sampled_from([1, 1, 2, 3]))]
    return case


PARTS = [
    Part("sample_layer", exec_case, strategy=lambda tier: strat(tier), examples={"quick": 240, "thorough": 5000}, shards={"quick": 16, "thorough": 16},
         budget_s={"quick": 80, "thorough": 1500}, engine="serial for k=1, A for k>=2", describe="histories of 1-2 sampling calls x formats x systems x k"),
    Part("sample_layer_realmp", exec_real, strategy=lambda tier: strat(tier, real=True), examples={"quick": 24, "thorough": 300}, shards={"quick": 8, "thorough": 16},
         budget_s={"quick": 70, "thorough": 1200}, shrink=False, engine="R (real multiprocessing)", describe="the same on real multiprocessing with 2-4 workers"),
]


def extra_coverage(cov_parts):
    return {"traces_validated_against_impl": cov_parts.get("sample_layer_realmp", {}).get("evaluations", 0)}


KNOWN_SIGNATURES = {}
