"""C14 — FITS pyramids carry the leaves' true data range up to the root and the WTML."""

import os
import xml.etree.ElementTree as ET

import numpy as np
from hypothesis import strategies as st

from ..core import Part, Outcome, Violation, HarnessError, toasty_call, fresh_dir
from .. import refpyramid as rp
from .. import gens, scen
from .. import cascade_common as cc
from ..simsched import SimWorld, SimUnsupported

PROPERTY_ID = "C14"
LEVEL = "exploration"
RULE = (
    "case = (depth 0..3 (thorough 4), sparse FITS leaf population F32/F64/U8/I16/I32 written by toasty - directly or painted in two passes "
    "through the read-modify-write interface -, leaf values small integers shifted by a generated offset (so that ranges contain "
    "exact zeros, negative and large values) with generated NaN rectangles and, in a fifth of the float leaves, a few +-inf pixels, optional tile filter, worker count k, schedule). The "
    "pyramid is cascaded through Builder.cascade() (serial, Engine A for k>=2, real multiprocessing in part realmp) and "
    "index_rel.wtml is written. Oracle: for EVERY tile of every level DATAMIN/DATAMAX read with astropy = min/max over the finite "
    "values of all generated leaf arrays beneath it (float32 rounding allowed, rtol 1.2e-7); the WTML's DataMin/DataMax and the "
    "Builder's imgset = the root's. Non-trivial: the root's averaged pixel range is strictly inside the true range and >=2 leaves "
    "with different ranges."
)
ASSUMPTIONS = ["float leaves may hold a few +-inf pixels (a fifth of them): the recorded range is that of the FINITE values, as the statement says; a pyramid without any defined pixel has no range and is not generated"]


def exec_case(case, real=False):
    from toasty.pyramid import PyramidIO, Pos
    from toasty.builder import Builder
    from astropy.io import fits

    k = case["k"]
    depth = case["depth"]
    what = f"fits/{case['mode']} depth {depth} k={k}"
    with fresh_dir("c14-") as d:
        pio = PyramidIO(d, default_format="fits")
        leaves = {tuple(s["pos"]): cc.leaf_array(case["mode"], s, "fits") for s in case["leaves"]}
        with toasty_call("populate"):
            cc.populate(pio, case, leaves)
        bld = Builder(pio)
        bld.imgset.tile_levels = depth
        kw = {}
        if case.get("filter"):
            F = gens.filter_fn(case["filter"])
            kw["tile_filter"] = lambda t: F(tuple(t.pos))
        revised = None
        for rnd in range(2 if (case.get("revise") and case["mode"] in ("F32", "F64")) else 1):
            if rnd == 1:
                # the pyramid is cascaded AGAIN after one leaf was revised so that every 2x2 block keeps its mean (the parents' pixels
                # do not change) while its extremes move outwards: the recorded ranges have to follow
                from toasty.image import Image

                cands = sorted(q for q, a in leaves.items() if np.isfinite(a).any() and os.path.exists(pio.tile_path(Pos(*q), makedirs=False)))
                if not cands:
                    break
                q = cands[case["revise"] % len(cands)]
                a = leaves[q].copy()
                fin = np.isfinite(a)
                both = fin[:, 0::2] & fin[:, 1::2]
                if not both.any():
                    break
                delta = float(2 * (np.nanmax(np.abs(a[fin])) + 1) // 1 + 3)
                left, right = a[:, 0::2], a[:, 1::2]
                left[both] -= delta
                right[both] += delta
                leaves[q] = a
                revised = q
                with toasty_call("populate", "re-writing a revised leaf"):
                    pio.write_image(Pos(*q), Image.from_array(np.ascontiguousarray(cc.to_stored(a, "fits"))))
                k = 1
                what = what + f" (cascaded again after leaf {q} was revised, block means unchanged)"
            if k == 1 or real:
                with toasty_call("cascade", what):
                    bld.cascade(parallel=k, **kw)
            else:
                w = SimWorld(case.get("sched"))
                w, res = scen.run_sim(lambda: bld.cascade(parallel=k, **kw), None, world=w)
                if res["status"] == "hang":
                    raise Violation("cascade", f"{what}: parallel cascade never returns: {res['hang']}")
                if res["status"] == "raised":
                    if isinstance(res["exc"], SimUnsupported):
                        raise res["exc"]
                    raise Violation("cascade", f"{what}: parallel cascade raised {type(res['exc']).__name__}: {res['exc']}; {w.stderr.getvalue()[-500:]}")
                if res["status"] != "returned":
                    raise HarnessError("simulation inconclusive")
            with toasty_call("wtml", what):
                bld.write_index_rel_wtml()
            # true ranges
            def true_range(p):
                vals = [a[np.isfinite(a)] for q, a in leaves.items() if rp.is_desc_or_self(q, p)]
                vals = [v for v in vals if v.size]
                if not vals:
                    return None
                return float(min(v.min() for v in vals)), float(max(v.max() for v in vals))

            allnan_leaves = set(tuple(s_["pos"]) for s_ in case["leaves"] if s_.get("kind") == "allnan")
            checked = 0
            root_hdr = None
            for n in range(depth + 1):
                for y in range(2**n):
                    for x in range(2**n):
                        p = (n, x, y)
                        path = pio.tile_path(Pos(*p), makedirs=False)
                        tr = true_range(p)
                        if not os.path.exists(path):
                            if tr is not None:
                                raise Violation("tile-missing", f"{what}: tile {p} with defined leaf data beneath it does not exist")
                            continue
                        with fits.open(path) as hl:
                            hdr = hl[0].header
                            data = np.array(hl[0].data)
                        if tr is None and n == depth and p in allnan_leaves:
                            # an entirely undefined leaf file (put there by the harness, half of them through Image.save): it has
                            # no finite value, so it cannot record a finite range
                            bad = [key for key in ("DATAMIN", "DATAMAX") if key in hdr and np.isfinite(float(hdr[key]))]
                            if bad:
                                raise Violation("range", f"{what}: the entirely undefined leaf {p} records {bad[0]} = {hdr[bad[0]]!r}")
                            continue
                        if tr is None:
                            raise Violation("tile-unexpected", f"{what}: tile {p} exists without any defined leaf data beneath it")
                        for key, exp in (("DATAMIN", tr[0]), ("DATAMAX", tr[1])):
                            if key not in hdr:
                                raise Violation("range", f"{what}: tile {p} has no {key}")
                            got = float(hdr[key])
                            if not abs(got - exp) <= 1.2e-7 * max(abs(exp), abs(got)) + 1e-30:
                                pix = (float(np.nanmin(data)), float(np.nanmax(data)))
                                raise Violation(
                                    "range",
                                    f"{what}: tile {p} records {key} = {got!r}; the leaves beneath it have {'min' if key == 'DATAMIN' else 'max'} {exp!r} (the tile's own pixels span {pix})",
                                )
                        checked += 1
                        if n == 0:
                            root_hdr = (float(hdr["DATAMIN"]), float(hdr["DATAMAX"]), float(np.nanmin(data)), float(np.nanmax(data)))
            if root_hdr is None:
                raise Violation("tile-missing", f"{what}: no root tile")
            # WTML
            tree = ET.parse(os.path.join(d, "index_rel.wtml"))
            isets = [e for e in tree.iter() if e.tag == "ImageSet"]
            if len(isets) != 1:
                raise Violation("wtml", f"{what}: {len(isets)} ImageSet elements in index_rel.wtml")
            for key, exp, attr in (("DataMin", root_hdr[0], "data_min"), ("DataMax", root_hdr[1], "data_max")):
                v = isets[0].attrib.get(key, "0")  # the WTML format omits zero-valued attributes; absent means 0
                if not abs(float(v) - exp) <= 1.2e-7 * max(abs(exp), 1e-30) + 1e-30:
                    raise Violation("wtml-range", f"{what}: index_rel.wtml has {key}={v!r}, the root tile records {exp!r} (true range {true_range((0, 0, 0))})")
                bv = getattr(bld.imgset, attr)
                if bv is None or not abs(float(bv) - exp) <= 1.2e-7 * max(abs(exp), 1e-30) + 1e-30:
                    raise Violation("wtml-range", f"{what}: Builder.imgset.{attr} = {bv!r}, the root tile records {exp!r}")
    ranges = set(true_range(p) for p in leaves)
    inside = root_hdr[2] > root_hdr[0] and root_hdr[3] < root_hdr[1]
    cls = [case["mode"], f"depth{depth}", f"k{k}"]
    if any(s.get("via") == "update2" for s in case["leaves"]):
        cls.append("leaf-painted-in-two-updates")
    if revised is not None:
        cls.append("cascaded-again-after-a-leaf-was-revised")
    if root_hdr[0] == 0.0 or root_hdr[1] == 0.0:
        cls.append("extremum-exactly-zero")
    if len(leaves) < 4**depth:
        cls.append("sparse")
    if any(s_.get("inf") for s_ in case["leaves"] if s_.get("kind") is None):
        cls.append("leaf-with-infinite-pixels")
    if case.get("filter"):
        cls.append("tile-filter")
    return Outcome(classes=cls, nontrivial=inside and len(ranges) >= 2, count=checked, info={"root": root_hdr[:2]})


def exec_real(case):
    return exec_case(case, real=True)


def exec_tile_fits_toast(case):
    """FITS auto-tiling in TOAST mode of several images: the leaves are sampled by toasty itself; the
    truth is taken from the leaf tile files on disk (read with astropy), the oracle is the same."""
    import toasty
    from astropy.io import fits
    from toasty.pyramid import PyramidIO, Pos
    from .. import wcsgen

    old_env = os.environ.get("SLURM_NPROCS")
    os.environ["SLURM_NPROCS"] = "1"
    try:
        with fresh_dir("c14t-") as d:
            paths = []
            for i, im in enumerate(case["images"]):
                w, h = im["size"]
                spec = dict(im["wcs"])
                y, x = np.indices((h, w))
                data = ((x * 7 + y * 3) % 50 + 1).astype(np.float32) * im["gain"] + im["offset"]
                pth = os.path.join(d, f"im{i}.fits")
                fits.writeto(pth, data.astype(np.float32), header=wcsgen.header_of(spec, w, h))
                paths.append(pth)
            out = os.path.join(d, "out")
            start = case["start"]
            what = f"tile_fits TOAST of {len(paths)} images, start={start}"
            import warnings

            with toasty_call("workflow", what):
                with warnings.catch_warnings():
                    warnings.simplefilter("ignore")
                    odir, bld = toasty.tile_fits(paths, out_dir=out, parallel=1, tiling_method=toasty.TilingMethod.TOAST, start=start)
            pio = PyramidIO(out, default_format="fits")
            leaves = {}
            for yy in range(2**start):
                for xx in range(2**start):
                    pth = pio.tile_path(Pos(start, xx, yy), makedirs=False)
                    if os.path.exists(pth):
                        with fits.open(pth) as hl:
                            a = np.array(hl[0].data, dtype=np.float64)
                        if np.isfinite(a).any():
                            leaves[(start, xx, yy)] = a
            if not leaves:
                return Outcome(classes=["tile_fits_toast", "no-leaves"], nontrivial=False)
            checked = 0
            root = None
            for n in range(start + 1):
                for yy in range(2**n):
                    for xx in range(2**n):
                        p = (n, xx, yy)
                        vals = [a[np.isfinite(a)] for q, a in leaves.items() if rp.is_desc_or_self(q, p)]
                        pth = pio.tile_path(Pos(*p), makedirs=False)
                        if not vals:
                            continue
                        lo, hi = float(min(v.min() for v in vals)), float(max(v.max() for v in vals))
                        if not os.path.exists(pth):
                            raise Violation("tile-missing", f"{what}: tile {p} has sampled leaf data beneath it but does not exist")
                        with fits.open(pth) as hl:
                            hdr = hl[0].header
                        for key, exp in (("DATAMIN", lo), ("DATAMAX", hi)):
                            got = float(hdr[key]) if key in hdr else None
                            if got is None or not abs(got - exp) <= 1.2e-7 * max(abs(exp), abs(got)) + 1e-30:
                                raise Violation("range", f"{what}: tile {p} records {key} = {got!r}; the leaf tiles beneath it have {exp!r}")
                        checked += 1
                        if n == 0:
                            root = (lo, hi)
            tree = ET.parse(os.path.join(out, "index_rel.wtml"))
            iset = [e for e in tree.iter() if e.tag == "ImageSet"][0]
            for key, exp, attr in (("DataMin", root[0], "data_min"), ("DataMax", root[1], "data_max")):
                v = float(iset.attrib.get(key, "0"))
                if not abs(v - exp) <= 1.2e-7 * max(abs(exp), 1e-30) + 1e-30:
                    raise Violation("wtml-range", f"{what}: index_rel.wtml has {key}={v!r}, the leaf tiles span {root}")
                bv = getattr(bld.imgset, attr)
                if bv is None or not abs(float(bv) - exp) <= 1.2e-7 * max(abs(exp), 1e-30) + 1e-30:
                    raise Violation("wtml-range", f"{what}: the returned Builder has {attr}={bv!r}, the leaf tiles span {root}")
    finally:
        if old_env is None:
            os.environ.pop("SLURM_NPROCS", None)
        else:
            os.environ["SLURM_NPROCS"] = old_env
    return Outcome(classes=["tile_fits_toast", f"images{len(case['images'])}", f"start{start}"], nontrivial=len(case["images"]) >= 2 and len(leaves) >= 2, count=checked)


@st.composite
def strat_tile_fits_toast(draw, tier):
    from .. import wcsgen

    imgs = []
    for i in range(draw(st.integers(1, 3))):
        spec = draw(wcsgen.wcs_specs(projections=("TAN",), max_dec=70, min_scale_log=-1.0, max_scale_log=-0.6, allow_skew=False))
        spec["ratio"] = 1.0
        spec["crpix_mode"] = "half"
        imgs.append({"size": [draw(st.integers(16, 64)), draw(st.integers(16, 64))], "wcs": spec, "gain": draw(st.sampled_from([1.0, 0.01, 4.0])), "offset": draw(st.sampled_from([0.0, 100.0, -300.0, 1000.0]))})
    return {"images": imgs, "start": draw(st.integers(1, 3))}


FITS_MODES = ["F32", "F32", "F64", "F64", "U8", "I16", "I32"]


@st.composite
def strat(draw, tier):
    case = draw(cc.cascade_cases(tier, formats=["fits"], want_range=True, modes=FITS_MODES, depth0=True))
    if draw(st.integers(0, 3)) == 0:
        case["revise"] = draw(st.integers(1, 50))
    return case


@st.composite
def strat_real(draw, tier):
    case = draw(cc.cascade_cases(tier, formats=["fits"], want_range=True, modes=FITS_MODES))
    case["k"] = draw(st.sampled_from([2, 3, 4]))
    case.pop("sched", None)
    return case


PARTS = [
    Part("data_range", exec_case, strategy=strat, examples={"quick": 400, "thorough": 8000}, shards={"quick": 16, "thorough": 16},
         budget_s={"quick": 75, "thorough": 1500}, engine="serial for k=1, A for k>=2", describe="generated FITS pyramids, Builder.cascade + index_rel.wtml"),
    Part("tile_fits_toast", exec_tile_fits_toast, strategy=strat_tile_fits_toast, examples={"quick": 48, "thorough": 1500}, shards={"quick": 16, "thorough": 16},
         budget_s={"quick": 75, "thorough": 1500}, describe="FITS auto-tiling in TOAST mode of 1-3 images anywhere on the sky: ranges of every tile vs the sampled leaf tiles on disk; WTML and returned Builder vs the root"),
    Part("data_range_realmp", exec_real, strategy=strat_real, examples={"quick": 32, "thorough": 400}, shards={"quick": 8, "thorough": 16},
         budget_s={"quick": 60, "thorough": 1200}, shrink=False, engine="R (real multiprocessing)", describe="the same on real multiprocessing, 2-4 workers"),
]


def extra_coverage(cov_parts):
    return {"traces_validated_against_impl": cov_parts.get("data_range_realmp", {}).get("evaluations", 0)}
