"""C08 — Study tiling is a lossless, centred partition of the image into 256-pixel tiles."""

import os

import numpy as np
from hypothesis import strategies as st

from ..core import Part, Outcome, Violation, toasty_call, fresh_dir
from .c15 import make_array, arrays_equal, empty_buffer_array, decode_independently, undefined_mask

PROPERTY_ID = "C08"
LEVEL = "exploration"
RULE = (
    "(a) arithmetic, exhaustive per axis: every width 1..4200 against a boundary set of heights {1,255,256,257,511,512,513,"
    "1024,1025,2049,4097} and vice versa. RefStudy: square = smallest power of two >= max(256,w,h), offsets floor((square-w)/2), "
    "floor((square-h)/2). Checked: number of levels (public n_deepest_layer_tiles), offsets through image_to_tile(0,0) and for "
    "the four image corners, the rectangles of generate_populated_positions are inside their tiles and inside the image, "
    "pairwise disjoint, their areas sum to w*h, each sits where the centred mapping puts it, and their number equals "
    "count_populated_positions(). (b) generated sub-images (offset, size) of generated parents, same checks with the parent's "
    "geometry. (c) I/O: generated image sizes (boundary-biased, <= 1100 px), modes and lossless formats (png: RGB, RGBA; npy: "
    "all eight; fits: F32, F64, U8, I16, I32), whole images and sub-images tiled into a larger tiling; the written deepest-level "
    "tiles are decoded independently (numpy / astropy / PIL), FITS rows reversed, re-assembled and compared with the image "
    "pasted at the centred offset in an all-undefined canvas; a file exists only for tiles that overlap the image and for every "
    "tile holding a defined pixel. Non-trivial: the image spans >= 2 tiles on some axis or a side is not a multiple of 256."
)
ASSUMPTIONS = ["undefined = alpha 0 (colour), NaN (float), 0 (integer modes)", "tiles whose pixels are all undefined are not stored (C15); a missing file counts as an all-undefined tile"]

BOUNDARY = [1, 255, 256, 257, 511, 512, 513, 1024, 1025, 2049, 4097]


def ref_p2n(w, h):
    p = 256
    while p < max(w, h):
        p *= 2
    return p


def check_tiling(tiling, w, h, gx0, gy0, p2n, what):
    """tiling describes an image (or sub-image) of size w x h whose top-left pixel is at global (gx0, gy0)"""
    levels = p2n.bit_length() - 9  # log2(p2n / 256)
    n = tiling.n_deepest_layer_tiles()
    if n != 4**levels:
        raise Violation("square", f"{what}: n_deepest_layer_tiles() = {n}, expected 4**{levels} (square of {p2n} px)")
    rects = list(tiling.generate_populated_positions())
    cnt = tiling.count_populated_positions()
    if cnt != len(rects):
        raise Violation("count", f"{what}: count_populated_positions() = {cnt} but {len(rects)} rectangles are generated")
    area = 0
    R = []
    seen_pos = set()
    for (pos, rw, rh, ix, iy, tx, ty) in rects:
        if pos.n != levels or not (0 <= pos.x < 2**levels and 0 <= pos.y < 2**levels):
            raise Violation("rect", f"{what}: rectangle in invalid tile {tuple(pos)}")
        if tuple(pos) in seen_pos:
            raise Violation("rect", f"{what}: tile {tuple(pos)} generated twice")
        seen_pos.add(tuple(pos))
        if rw < 1 or rh < 1 or tx < 0 or ty < 0 or tx + rw > 256 or ty + rh > 256:
            raise Violation("rect", f"{what}: rectangle {(rw, rh, tx, ty)} does not lie inside tile {tuple(pos)}")
        if ix < 0 or iy < 0 or ix + rw > w or iy + rh > h:
            raise Violation("rect", f"{what}: rectangle image part {(ix, iy, rw, rh)} leaves the {w}x{h} image")
        if pos.x * 256 + tx != gx0 + ix or pos.y * 256 + ty != gy0 + iy:
            raise Violation(
                "centred",
                f"{what}: image pixel ({ix},{iy}) is placed at global ({pos.x*256+tx},{pos.y*256+ty}), the centred mapping puts it at ({gx0+ix},{gy0+iy})",
            )
        area += rw * rh
        R.append((ix, iy, ix + rw, iy + rh))
    if area != w * h:
        raise Violation("cover", f"{what}: rectangles cover {area} pixels, the image has {w*h}")
    A = np.array(R)
    if 1 < len(A) <= 3000:
        # pairwise disjoint (with the area sum this implies exact cover); for thousands of rectangles disjointness already follows
        # from what was checked above: distinct tiles, each rectangle inside its tile, one translation for all of them
        x0, y0, x1, y1 = A[:, 0], A[:, 1], A[:, 2], A[:, 3]
        ov = (np.minimum(x1[:, None], x1[None, :]) > np.maximum(x0[:, None], x0[None, :])) & (np.minimum(y1[:, None], y1[None, :]) > np.maximum(y0[:, None], y0[None, :]))
        np.fill_diagonal(ov, False)
        if ov.any():
            i, j = np.argwhere(ov)[0]
            raise Violation("disjoint", f"{what}: rectangles {R[i]} and {R[j]} overlap")
    return len(rects)


def check_image_to_tile(tiling, w, h, gx0, gy0, what):
    for (px, py) in ((0, 0), (w - 1, 0), (0, h - 1), (w - 1, h - 1), (w // 2, h // 3)):
        t = tiling.image_to_tile(px, py)
        tix, tiy, sx, sy = (int(v) for v in t)
        gx, gy = gx0 + px, gy0 + py
        if (tix, tiy, sx, sy) != (gx // 256, gy // 256, gx % 256, gy % 256):
            raise Violation("image_to_tile", f"{what}: image_to_tile({px},{py}) = {(tix, tiy, sx, sy)}, centred mapping gives {(gx//256, gy//256, gx%256, gy%256)}")


def exec_axis(case):
    from toasty.study import StudyTiling

    v = case["value"]
    n = 0
    for o in case.get("others", BOUNDARY):
        w, h = (v, o) if case["axis"] == "w" else (o, v)
        what = f"StudyTiling({w}, {h})"
        with toasty_call("tiling", what):
            t = StudyTiling(w, h)
            p2n = ref_p2n(w, h)
            gx0, gy0 = (p2n - w) // 2, (p2n - h) // 2
            check_tiling(t, w, h, gx0, gy0, p2n, what)
            check_image_to_tile(t, w, h, gx0, gy0, what)
        n += 1
    nt = v % 256 != 0 or v > 256
    return Outcome(classes=[case["axis"], "size<=256" if v <= 256 else ("size<=1024" if v <= 1024 else ("size>1024" if v <= 4200 else "size-around-2^12..2^20"))], nontrivial=nt, count=n)


def enum_axis(tier):
    top = 4200 if tier == "thorough" else 1300
    for axis in ("w", "h"):
        for v in range(1, top + 1):
            yield {"axis": axis, "value": v}
        # long thin images around every power of two up to 2^20 (scans, panoramas): the square, the centring and the partition
        for k in range(12, 21):
            for dv in (-1, 0, 1, 2, 3, 5, 2 ** (k - 1) + 1):
                yield {"axis": axis, "value": 2**k + dv, "others": [1, 300]}


def exec_sub(case):
    from toasty.study import StudyTiling

    W, H = case["parent"]
    ix, iy, w, h = case["sub"]
    what = f"StudyTiling({W},{H}).compute_for_subimage({ix},{iy},{w},{h})"
    with toasty_call("tiling", what):
        parent = StudyTiling(W, H)
        sub = parent.compute_for_subimage(ix, iy, w, h)
        p2n = ref_p2n(W, H)
        gx0, gy0 = (p2n - W) // 2 + ix, (p2n - H) // 2 + iy
        nrect = check_tiling(sub, w, h, gx0, gy0, p2n, what)
        check_image_to_tile(sub, w, h, gx0, gy0, what)
        # the parent must be unaffected
        check_tiling(parent, W, H, (p2n - W) // 2, (p2n - H) // 2, p2n, "parent after compute_for_subimage")
    nparent = parent.count_populated_positions()
    cls = ["sub-image", "fewer-tiles-than-parent" if nrect < nparent else "same-tiles-as-parent"]
    return Outcome(classes=cls, nontrivial=True)


sizes = st.one_of(st.integers(1, 5000), st.sampled_from([1, 2, 255, 256, 257, 300, 511, 512, 513, 1000, 1023, 1024, 1025, 2047, 2048, 2049]))


@st.composite
def strat_sub(draw, tier):
    W, H = draw(sizes), draw(sizes)
    w = draw(st.integers(1, W))
    h = draw(st.integers(1, H))
    ix = draw(st.integers(0, W - w))
    iy = draw(st.integers(0, H - h))
    return {"parent": [W, H], "sub": [ix, iy, w, h]}


# ------------------------------------------------------------------ I/O

FORMAT_MODES = {
    "png": ["RGB", "RGBA"],
    "npy": ["RGB", "RGBA", "F32", "F64", "F16x3", "U8", "I16", "I32"],
    "fits": ["F32", "F64", "U8", "I16", "I32"],
}


def documented_tile_path(base, scheme, n, x, y, ext):
    """where the tile (n, x, y) lives under the two documented naming schemes (the WWT client's URL templates
    {1}/{3}/{3}_{2} and L{1}X{2}Y{3}); independent of PyramidIO.tile_path"""
    if scheme == "LXY":
        return os.path.join(base, f"L{n}X{x}Y{y}.{ext}")
    return os.path.join(base, str(n), str(y), f"{y}_{x}.{ext}")


def reassemble(base, scheme, levels, fmt, mode):
    nt = 2**levels
    bmode = "RGBA" if mode in ("RGB", "RGBA") else mode
    canvas = empty_buffer_array(mode, 256 * nt, 256 * nt)
    present = set()
    for ty in range(nt):
        for tx in range(nt):
            p = documented_tile_path(base, scheme, levels, tx, ty, fmt)
            if os.path.exists(p):
                a = decode_independently(p, fmt)
                if fmt == "fits":
                    a = a[::-1]
                if a.shape[:2] != (256, 256):
                    raise Violation("tile-shape", f"tile {(levels, tx, ty)} has shape {a.shape}")
                if a.shape != canvas[:256, :256].shape or a.dtype.kind != canvas.dtype.kind or a.dtype.itemsize != canvas.dtype.itemsize:
                    raise Violation("tile-mode", f"tile {(levels, tx, ty)} stored as {a.dtype}{a.shape[2:]}, the image is {mode}")
                canvas[256 * ty : 256 * ty + 256, 256 * tx : 256 * tx + 256] = a
                present.add((tx, ty))
    # tile files of this level under any other name are tiles the reassembly cannot find
    expected_names = set(os.path.normpath(documented_tile_path(base, scheme, levels, tx, ty, fmt)) for tx in range(nt) for ty in range(nt))
    for root, _dirs, files in os.walk(base):
        if "nested-other" in root:
            continue
        for f in files:
            full = os.path.normpath(os.path.join(root, f))
            if not f.endswith("." + fmt) or full in expected_names:
                continue
            rel = os.path.relpath(full, base)
            at_level = rel.startswith(f"L{levels}X") if scheme == "LXY" else rel.split(os.sep)[0] == str(levels)
            if at_level:
                raise Violation("lossless", f"a level-{levels} tile file was written as {rel!r}, which is no position's name under the {scheme} naming scheme")
    return canvas, present


def make_array_holes(arr, mode, y0, y1, x0, x1):
    if mode in ("F32", "F64", "F16x3"):
        arr[y0:y1, x0:x1] = np.nan
    elif mode in ("U8", "I16", "I32"):
        arr[y0:y1, x0:x1] = 0
    elif mode == "RGBA":
        arr[y0:y1, x0:x1] = 0
    return arr


def exec_io(case):
    from toasty.study import StudyTiling, tile_study_image
    from toasty.image import Image
    from toasty.pyramid import PyramidIO

    fmt, mode = case["format"], case["mode"]
    w, h = case["size"]
    holes = [[a * (h // 40 + 1), b * (h // 40 + 1), c * (w // 40 + 1), d * (w // 40 + 1), e] for a, b, c, d, e in case["holes"]]
    arr = make_array(mode, h, w, case["salt"], holes)
    # make values position-dependent beyond the 97-periodic base pattern
    if arr.dtype.kind == "f":
        r, c = np.indices((h, w))
        extra = (r // 97 * 101 + c // 97)
        arr = (arr + (extra if arr.ndim == 2 else extra[..., None]).astype(arr.dtype) * (1 if arr.dtype != np.float16 else 0)).astype(arr.dtype)
    bmode = "RGBA" if mode in ("RGB", "RGBA") else mode
    sub = case.get("sub")
    # whole-tile holes: the image's share of a chosen deepest-level tile is made completely undefined, or (float modes) is
    # filled with non-finite but *defined* values (+-inf, possibly mixed with NaN)
    if sub is None:
        p2n_ = ref_p2n(w, h)
        ox, oy = (p2n_ - w) // 2, (p2n_ - h) // 2
    else:
        p2n_ = ref_p2n(sub[0], sub[1])
        ox, oy = (p2n_ - sub[0]) // 2 + sub[2], (p2n_ - sub[1]) // 2 + sub[3]
    nt_ = p2n_ // 256
    fills = set()
    for fx, fy, fill in case.get("tile_holes", []):
        tx, ty = fx % nt_, fy % nt_
        x0, x1 = max(256 * tx - ox, 0), min(256 * tx + 256 - ox, w)
        y0, y1 = max(256 * ty - oy, 0), min(256 * ty + 256 - oy, h)
        if x0 >= x1 or y0 >= y1:
            continue
        if fill == "undef" or arr.dtype.kind != "f":
            arr = make_array_holes(arr, mode, y0, y1, x0, x1)
            if mode != "RGB":
                fills.add("whole-tile-undefined")
        else:
            arr[y0:y1, x0:x1] = {"inf": np.inf, "-inf": -np.inf, "inf+nan": np.nan}[fill]
            if fill == "inf+nan":
                arr[y0 : y1 : 2, x0:x1] = np.inf
            fills.add("whole-tile-nonfinite")
    with fresh_dir("c08-") as d:
        scheme = case.get("scheme") or "L/Y/YX"
        pio = PyramidIO(d, default_format=fmt, scheme=scheme)
        nested = case.get("nested")
        if nested:
            # re-entrancy: while the first tile of this image is being written, another image of the same mode is tiled
            # completely (into another directory); nothing of it may leak into this pyramid
            d2 = os.path.join(d, "nested-other")

            class NestingIO(PyramidIO):
                _did = False

                def write_image(self, pos, image, **k):
                    if not NestingIO._did:
                        NestingIO._did = True
                        other = make_array(mode, nested[1], nested[0], case["salt"] + 3, [])
                        tile_study_image(Image.from_array(other, default_format=fmt if fmt != "png" else None), PyramidIO(d2, default_format=fmt))
                    return super().write_image(pos, image, **k)

            pio = NestingIO(d, default_format=fmt, scheme=scheme)
        src = case.get("source", "array")
        # the format the image itself carries (where it was loaded from): usually the pyramid's, but an image loaded from a FITS
        # file may be tiled into an npy pyramid and an in-memory array (labelled png by default) into a FITS one
        img_fmt = fmt if fmt != "png" else None
        if case.get("image_format"):
            img_fmt = case["image_format"]
            fills.add("image-format-differs-from-the-pyramid's")
        wc = None
        if case.get("flipped"):
            from astropy.wcs import WCS

            wc = WCS(naxis=2)
            wc.wcs.ctype = ["RA---TAN", "DEC--TAN"]
            wc.wcs.crval = [30.0, 20.0]
            wc.wcs.crpix = [(w + 1) / 2, (h + 1) / 2]
            wc.wcs.cd = [[1e-3 if case["salt"] % 2 else -1e-3, 0.0], [0.0, 1e-3]]
        if src.startswith("pil") and mode in ("RGB", "RGBA"):
            # a PIL-backed image, as the image loader produces for png / jpg inputs
            from PIL import Image as PILImage

            img = Image.from_pil(PILImage.fromarray(arr.copy()), wcs=wc, default_format=img_fmt)
            if src == "pil-cached":
                img.asarray()
            fills.add("pil-backed")
        else:
            img = Image.from_array(arr.copy(), wcs=wc, default_format=img_fmt)
        if case.get("flipped"):
            # the image was given a WCS and its parity was flipped before tiling (what `tile-study --fits-wcs` does):
            # the image to be reproduced is the image as it is now, rows reversed
            with toasty_call("tile", "flipping the image's parity before tiling"):
                p0 = img.get_parity_sign()
                if case["flipped"] == "ensure":
                    img.ensure_negative_parity()
                    did = p0 == 1
                else:
                    img.flip_parity()
                    did = True
            if did:
                arr = arr[::-1].copy()
                fills.add("parity-flipped-before-tiling")
        if case.get("previous") and sub is None:
            # the directory already holds the tiles of an earlier image of the same size: nothing of it may survive
            prev = make_array(mode, h, w, case["salt"] + 7, [])
            with toasty_call("tile", "tiling an earlier image into the same directory"):
                tile_study_image(Image.from_array(prev, default_format=fmt if fmt != "png" else None), pio)
        if sub is None:
            what = f"tile_study_image({w}x{h} {mode} -> {fmt})"
            with toasty_call("tile", what):
                if case.get("route") == "builder":
                    t = StudyTiling(w, h)
                    t.tile_image(img, pio)
                else:
                    t = tile_study_image(img, pio)
            p2n = ref_p2n(w, h)
            gx0, gy0 = (p2n - w) // 2, (p2n - h) // 2
        else:
            W, H, ix, iy = sub
            what = f"sub-image {w}x{h} at ({ix},{iy}) of a {W}x{H} tiling ({mode} -> {fmt})"
            with toasty_call("tile", what):
                parent = StudyTiling(W, H)
                t = parent.compute_for_subimage(ix, iy, w, h)
                t.tile_image(img, pio)
            p2n = ref_p2n(W, H)
            gx0, gy0 = (p2n - W) // 2 + ix, (p2n - H) // 2 + iy
        levels = p2n.bit_length() - 9
        canvas, present = reassemble(d, scheme, levels, fmt, mode)
        exp = empty_buffer_array(mode, p2n, p2n)
        if mode == "RGB":
            exp[gy0 : gy0 + h, gx0 : gx0 + w, :3] = arr
            exp[gy0 : gy0 + h, gx0 : gx0 + w, 3] = 255
        else:
            exp[gy0 : gy0 + h, gx0 : gx0 + w] = arr
        if not arrays_equal(canvas, exp):
            ne = ~np.isclose(canvas.astype(float), exp.astype(float), equal_nan=True)
            ne2 = ne.any(axis=2) if ne.ndim == 3 else ne
            yy, xx = np.argwhere(ne2)[0]
            inside = gy0 <= yy < gy0 + h and gx0 <= xx < gx0 + w
            raise Violation(
                "lossless",
                f"{what}: re-assembled pixel (row {yy}, col {xx}) [tile ({xx//256},{yy//256}) pixel ({xx%256},{yy%256})], {'inside' if inside else 'OUTSIDE'} the image area, is {canvas[yy, xx].tolist()} expected {exp[yy, xx].tolist()}; {int(ne2.sum())} pixels differ",
            )
        # existence
        und = undefined_mask(bmode, exp)
        for ty in range(2**levels):
            for tx in range(2**levels):
                overlaps = not (256 * tx + 256 <= gx0 or 256 * tx >= gx0 + w or 256 * ty + 256 <= gy0 or 256 * ty >= gy0 + h)
                has_defined = not und[256 * ty : 256 * ty + 256, 256 * tx : 256 * tx + 256].all()
                if (tx, ty) in present and not overlaps:
                    raise Violation("existence", f"{what}: tile ({levels},{tx},{ty}) was written but does not overlap the image")
                if has_defined and (tx, ty) not in present:
                    raise Violation("existence", f"{what}: tile ({levels},{tx},{ty}) holds image pixels but no file was written")
    cls = [fmt, mode, "sub-image" if sub else "whole", f"levels{levels}"] + sorted(fills)
    if nested:
        cls.append("nested-tiling")
    cls.append("scheme-" + scheme.replace("/", ""))
    if case.get("previous") and sub is None:
        cls.append("re-tiled-directory")
    if fmt == "fits":
        cls.append("bottom-up")
    nt = (w > 256 or h > 256 or w % 256 or h % 256) and True
    return Outcome(classes=cls, nontrivial=bool(nt), info={"size": [w, h], "tiles": len(present)})


io_sizes = st.one_of(st.integers(1, 1100), st.sampled_from([1, 2, 37, 255, 256, 257, 300, 511, 512, 513, 600, 1023, 1024, 1025]))


@st.composite
def strat_io(draw, tier):
    fmt = draw(st.sampled_from(["png", "npy", "fits", "fits"]))
    mode = draw(st.sampled_from(FORMAT_MODES[fmt]))
    big = draw(st.integers(0, 3)) == 0
    w = draw(io_sizes) if big else draw(st.one_of(st.integers(1, 600), st.sampled_from([255, 256, 257, 511, 512, 513])))
    h = draw(io_sizes) if big else draw(st.one_of(st.integers(1, 600), st.sampled_from([255, 256, 257, 511, 512, 513])))
    case = {"format": fmt, "mode": mode, "size": [w, h], "salt": draw(st.integers(0, 20)), "route": draw(st.sampled_from(["func", "builder"])),
            "holes": [[draw(st.integers(0, 40)) for _ in range(4)] + [True] for _ in range(draw(st.integers(0, 2)))],
            "previous": draw(st.integers(0, 3)) == 0,
            "tile_holes": [[draw(st.integers(0, 7)), draw(st.integers(0, 7)), draw(st.sampled_from(["undef", "undef", "inf", "-inf", "inf+nan"]))]
                           for _ in range(draw(st.sampled_from([0, 0, 1, 2])))]}
    if draw(st.integers(0, 4)) == 0:
        case["nested"] = [draw(st.integers(1, 600)), draw(st.integers(1, 600))]
    if draw(st.integers(0, 2)) == 0:
        case["scheme"] = "LXY"  # the flat naming scheme (used by the pipeline)
    if mode in ("RGB", "RGBA"):
        case["source"] = draw(st.sampled_from(["array", "pil", "pil-cached"]))
    if draw(st.integers(0, 3)) == 0:
        case["flipped"] = draw(st.sampled_from(["flip", "ensure"]))
    if draw(st.integers(0, 3)) == 0:
        other = draw(st.sampled_from(["png", "npy", "fits"]))
        if other != fmt:
            case["image_format"] = other
    if draw(st.integers(0, 2)) == 0:
        W = draw(st.integers(w, max(w, 1100)))
        H = draw(st.integers(h, max(h, 1100)))
        case["sub"] = [W, H, draw(st.integers(0, W - w)), draw(st.integers(0, H - h))]
    return case


PARTS = [
    Part("arithmetic_per_axis", exec_axis, enumerate=enum_axis, shards={"quick": 16, "thorough": 16}, budget_s={"quick": 80, "thorough": 1200},
         describe="every size 1..1300 (quick) / 1..4200 (thorough) on one axis x 11 boundary sizes on the other"),
    Part("subimages", exec_sub, strategy=strat_sub, examples={"quick": 6000, "thorough": 200000}, shards={"quick": 8, "thorough": 16},
         describe="generated sub-images of generated parents (sizes to 5000)"),
    Part("tile_io", exec_io, strategy=strat_io, examples={"quick": 800, "thorough": 12000}, shards={"quick": 16, "thorough": 16},
         budget_s={"quick": 70, "thorough": 1500}, describe="tiles written, decoded independently, re-assembled and compared with the centred image; whole images and sub-images"),
]
PARTS[0].exhaustive_tiers = {"quick", "thorough"}
