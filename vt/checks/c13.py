"""C13 — Quadtree enumeration and tile counts are consistent and match what is visited."""

import itertools

from hypothesis import strategies as st

from ..core import Part, Outcome, Violation, toasty_call
from .. import refpyramid as rp
from .. import gens

PROPERTY_ID = "C13"
LEVEL = "exploration"
RULE = (
    "cases: (a) every position to a depth bound and sampled deep positions for the parent/child/"
    "descendant algebra; (b) generate_pos for every depth to a bound; (c) every canonical tile filter of a "
    "depth-2 TOAST pyramid (thorough: all 2^20 accepted-sets) and every apex with every assignment of the "
    "filter bits that can matter; (d) Hypothesis-generated (kind, depth<=5/6, filter, apex); (e) the same decoded from "
    "fuzzer bytes (atheris); (f) histories of 2-4 pyramids used one after another in one process (mostly the same depth "
    "and apex with a different filter, kind or system), each judged on its own. Oracle: RefPyramid "
    "(reached / leaves / live / ops written from the documentation) compared with the enumerators, the three "
    "counters and the callbacks actually made by serial visit_leaves and walk. A case is non-trivial when its "
    "filter has a gap (accepted tile with no accepted child) or rejects something, or its apex has n>=1; a history when "
    "two different pyramids in it share depth and apex; one generated pyramid in eight is first asked for a sub-pyramid whose apex "
    "lies below its depth (documented as illegal): once that request has been refused the pyramid must behave as before; "
    "for the algebra, when n>=2. distinct = distinct case fingerprints."
)
ASSUMPTIONS = [
    "filters are pure functions of the tile position (accepted-sets); geometric filters are C07's subject",
    "Pyramid._generator is private and is used only as an additional route (skipped if absent)",
]


def _P():
    from toasty import pyramid

    return pyramid


# ---------------------------------------------------------------- algebra


def check_algebra_pos(p):
    py = _P()
    Pos = py.Pos
    n, x, y = p
    pos = Pos(n, x, y)
    ch = py.pos_children(pos)
    if not isinstance(ch, list) or len(ch) != 4:
        raise Violation("children", f"pos_children({p}) is not a list of four")
    ref_ch = rp.children(p)
    if [tuple(c) for c in ch] != ref_ch:
        raise Violation("children", f"pos_children({p}) = {[tuple(c) for c in ch]}, expected {ref_ch} (order: top-left, top-right, bottom-left, bottom-right)")
    for i, c in enumerate(ch):
        par, ix, iy = py.pos_parent(c)
        if tuple(par) != p or (ix, iy) != (i % 2, i // 2):
            raise Violation("parent-child", f"pos_parent({tuple(c)}) = {tuple(par), ix, iy}; child index {i} of {p}")
        if py.pos_children(par)[2 * iy + ix] != c:
            raise Violation("parent-child", f"pos_children(parent)[2*iy+ix] != child for {tuple(c)}")
    if n >= 1:
        par, ix, iy = py.pos_parent(pos)
        if tuple(par) != rp.parent(p) or ix != x % 2 or iy != y % 2:
            raise Violation("parent", f"pos_parent({p}) = {tuple(par), ix, iy}")
    else:
        try:
            py.pos_parent(pos)
        except ValueError:
            pass
        else:
            raise Violation("parent", "pos_parent of the level-0 position did not raise ValueError")
    # is_subtile against every ancestor and a non-ancestor at every level
    for lev in range(n + 1):
        a = rp.ancestor_at(p, lev)
        if py.is_subtile(pos, Pos(*a)) is not True:
            raise Violation("is_subtile", f"is_subtile({p}, {a}) is not True for an ancestor")
        if lev >= 1:
            m = 2**lev
            for other in ((lev, (a[1] + 1) % m, a[2]), (lev, a[1], (a[2] + 1) % m), (lev, a[2], a[1])):
                if other != a and py.is_subtile(pos, Pos(*other)) is not False:
                    raise Violation("is_subtile", f"is_subtile({p}, {other}) is not False for a non-ancestor")
        if lev < n:
            try:
                py.is_subtile(Pos(*a), pos)
            except ValueError:
                pass
            else:
                raise Violation("is_subtile", f"is_subtile({a}, {p}) with a shallower first argument did not raise ValueError")


def exec_algebra_row(case):
    n, y = case["n"], case["y"]
    with toasty_call("algebra"):
        for x in range(2**n):
            check_algebra_pos((n, x, y))
    return Outcome(classes=[f"level{n}"], nontrivial=n >= 2, count=2**n)


def enum_algebra(tier):
    maxn = 7 if tier == "quick" else 9
    for n in range(maxn + 1):
        for y in range(2**n):
            yield {"n": n, "y": y}


def check_closed_forms(n, a):
    """counts of an unfiltered pyramid of depth n restricted to a sub-pyramid with apex level a: exact integers at any depth"""
    py = _P()
    sub = n - a
    if py.depth2tiles(n) != (4 ** (n + 1) - 1) // 3 or py.tiles_at_depth(n) != 4**n:
        raise Violation("closed-form", f"depth2tiles({n}) = {py.depth2tiles(n)}, tiles_at_depth({n}) = {py.tiles_at_depth(n)}; exact values {(4 ** (n + 1) - 1) // 3}, {4**n}")
    p = py.Pyramid.new_generic(n)
    if a > 0:
        p = p.subpyramid(py.Pos(a, 2**a - 1, 2 ** (a - 1)))
    nl, nv, no = p.count_leaf_tiles(), p.count_live_tiles(), p.count_operations()
    if (nl, nv, no) != (4**sub, (4 ** (sub + 1) - 1) // 3, (4**sub - 1) // 3) or no + nl != nv:
        raise Violation("closed-form", f"generic pyramid of depth {n}, apex level {a}: leaves/live/operations = {(nl, nv, no)}, closed forms {(4**sub, (4 ** (sub + 1) - 1) // 3, (4**sub - 1) // 3)}")


def exec_algebra_deep(case):
    py = _P()
    p = tuple(case["pos"])
    with toasty_call("algebra"):
        check_algebra_pos(p)
        check_closed_forms(p[0], case["other"][0] % (p[0] + 1))
        q = tuple(case["other"])
        d, s = (p, q) if p[0] >= q[0] else (q, p)
        expect = rp.ancestor_at(d, s[0]) == s
        got = py.is_subtile(py.Pos(*d), py.Pos(*s))
        if bool(got) != expect:
            raise Violation("is_subtile", f"is_subtile({d}, {s}) = {got}, shifting gives {expect}")
    return Outcome(classes=[f"n>={10 * (p[0] // 10)}", "related" if expect else "unrelated"], nontrivial=p[0] >= 2)


@st.composite
def strat_algebra_deep(draw):
    p = draw(gens.positions(40, 0))
    if draw(st.booleans()):
        # a related position: an ancestor or a descendant
        lev = draw(st.integers(0, 40))
        if lev <= p[0]:
            q = list(rp.ancestor_at(tuple(p), lev))
        else:
            s = lev - p[0]
            q = [lev, (p[1] << s) + draw(st.integers(0, 2**s - 1)), (p[2] << s) + draw(st.integers(0, 2**s - 1))]
        # sometimes perturb by one to get a near miss
        if draw(st.integers(0, 3)) == 0 and q[0] >= 1:
            q[1] = (q[1] + 1) % (2 ** q[0])
    else:
        q = draw(gens.positions(40, 0))
    return {"pos": p, "other": q}


# ---------------------------------------------------------------- generate_pos


def check_postfix_sequence(seq, expected_set, what, depth, clause="enumeration"):
    """each expected position exactly once, nothing else, children (in scope) before parents"""
    seen = {}
    for i, p in enumerate(seq):
        if p in seen:
            raise Violation(clause, f"{what}: position {p} yielded twice")
        seen[p] = i
    got = set(seen)
    if got != expected_set:
        miss = sorted(expected_set - got)[:5]
        extra = sorted(got - expected_set)[:5]
        raise Violation(clause, f"{what}: missing {miss} unexpected {extra} (|got|={len(got)} |expected|={len(expected_set)})")
    for p, i in seen.items():
        if p[0] < depth:
            for c in rp.children(p):
                if c in seen and seen[c] > i:
                    raise Violation(clause + "-order", f"{what}: child {c} yielded after its parent {p}")


def exec_generate_pos(case):
    py = _P()
    d = case["depth"]
    with toasty_call("enumeration"):
        seq = [tuple(p) for p in py.generate_pos(d)]
        check_postfix_sequence(seq, set(rp.all_positions(d)), f"generate_pos({d})", d)
        if py.depth2tiles(d) != len(seq):
            raise Violation("closed-form", f"depth2tiles({d}) = {py.depth2tiles(d)} != {len(seq)}")
        if py.tiles_at_depth(d) != 4**d:
            raise Violation("closed-form", f"tiles_at_depth({d})")
    return Outcome(classes=[f"depth{d}"], nontrivial=d >= 1, count=len(seq))


# ---------------------------------------------------------------- pyramids vs RefPyramid


_GEO = None  # (lon0, width): the filter under test looks at the tile's sky position, not at its address


def _geo_accepts(vec_sum, geo):
    import math

    lon = math.atan2(vec_sum[1], vec_sum[0]) % (2 * math.pi)
    d = (lon - geo[0]) % (2 * math.pi)
    return d <= geo[1], min(d, abs(d - geo[1]), 2 * math.pi - d)


def tile_filter(F):
    if _GEO is None:
        return lambda t: F(tuple(t.pos))
    geo = _GEO

    def f(t):
        import math

        v = [0.0, 0.0, 0.0]
        for lon, lat in t.corners:
            v[0] += math.cos(lat) * math.cos(lon)
            v[1] += math.cos(lat) * math.sin(lon)
            v[2] += math.sin(lat)
        return _geo_accepts(v, geo)[0]

    return f


def geo_filter_as_positions(geo, depth, coordsys):
    """the positions of levels 1..depth whose corner centroid (from the reference model of the projection, in the given coordinate
    system) has its longitude in [lon0, lon0 + width]; and the smallest distance of any centroid longitude from the interval's ends"""
    from .. import reftoast as rt

    acc, margin = [], 10.0
    for n in range(1, depth + 1):
        for y in range(2**n):
            for x in range(2**n):
                c, _inc = rt.tile_corners(n, x, y, planetary=(coordsys == "planetary"))
                ok, m = _geo_accepts(c.sum(axis=0), geo)
                margin = min(margin, m)
                if ok:
                    acc.append([n, x, y])
    return {"default": False, "flip": acc}, margin


def make_pyramid(kind, depth, fspec, apex, coordsys="astronomical"):
    py = _P()
    from toasty import toast

    cs = toast.ToastCoordinateSystem.ASTRONOMICAL if coordsys == "astronomical" else toast.ToastCoordinateSystem.PLANETARY
    if kind == "generic":
        p = py.Pyramid.new_generic(depth)
    elif kind == "toast":
        p = py.Pyramid.new_toast(depth, coordsys=cs)
    else:
        F = gens.filter_fn(fspec)
        p = py.Pyramid.new_toast_filtered(depth, tile_filter(F), coordsys=cs)
    if _PRE_REJECT is not None:
        # a request for an apex below the pyramid's depth is documented as illegal; once it has been refused the pyramid
        # must be what it was before
        try:
            p.subpyramid(py.Pos(*_PRE_REJECT))
        except ValueError:
            pass
    if apex is not None:
        p = p.subpyramid(py.Pos(*apex))
    return p


_PRE_REJECT = None


def compare_pyramid(kind, depth, fspec, apex, coordsys="astronomical", routes=True):
    """Run all observable routes of one pyramid configuration against RefPyramid."""
    py = _P()
    F = gens.filter_fn(fspec) if kind == "filtered" else None
    ref = rp.RefPyramid(depth, F, tuple(apex) if apex is not None else (0, 0, 0))
    desc = f"{kind} depth={depth} apex={apex} filter={fspec if kind == 'filtered' else None}"
    mk = lambda: make_pyramid(kind, depth, fspec, apex, coordsys)

    # counters
    nl = mk().count_leaf_tiles()
    nv = mk().count_live_tiles()
    no = mk().count_operations()
    if nl != len(ref.leaves):
        raise Violation("count-leaves", f"count_leaf_tiles() = {nl}, reference {len(ref.leaves)} for {desc}")
    if nv != len(ref.live):
        raise Violation("count-live", f"count_live_tiles() = {nv}, reference {len(ref.live)} for {desc}")
    if no != len(ref.ops):
        raise Violation("count-ops", f"count_operations() = {no}, reference {len(ref.ops)} for {desc}")
    if no + nl != nv:
        raise Violation("count-sum", f"operations {no} + leaves {nl} != live {nv} for {desc}")
    if kind != "filtered" :
        sub = depth - (apex[0] if apex is not None else 0)
        if kind == "generic" or apex is None:
            # closed forms without filter
            if nl != 4**sub or nv != (4 ** (sub + 1) - 1) // 3 or no != (4**sub - 1) // 3:
                raise Violation("closed-form", f"counts {nl, nv, no} differ from closed forms for {desc}")

    # leaf visits
    visited = []

    def leaf_cb(pos, tile):
        visited.append((tuple(pos), tile))

    mk().visit_leaves(leaf_cb, parallel=1)
    vis_pos = [v[0] for v in visited]
    if sorted(vis_pos) != sorted(ref.leaves):
        from collections import Counter

        c = Counter(vis_pos)
        dup = [p for p, k in c.items() if k > 1][:4]
        raise Violation(
            "visit-leaves",
            f"visit_leaves visited {len(vis_pos)} leaves, reference {len(ref.leaves)}; missing {sorted(set(ref.leaves) - set(vis_pos))[:4]} "
            f"unexpected {sorted(set(vis_pos) - set(ref.leaves))[:4]} duplicated {dup} for {desc}",
        )
    if len(vis_pos) != nl:
        raise Violation("count-vs-visits", f"count_leaf_tiles {nl} != leaves visited {len(vis_pos)} for {desc}")
    for pos, tile in visited:
        if kind == "generic" or depth == 0:
            if tile is not None:
                raise Violation("visit-leaves", f"leaf callback got a tile for a position without TOAST geometry: {pos}")
        else:
            if tile is None or tuple(tile.pos) != pos:
                raise Violation("visit-leaves", f"leaf callback for {pos} received tile {None if tile is None else tuple(tile.pos)}")

    # walk
    walked = []
    mk().walk(lambda pos: walked.append(tuple(pos)), parallel=1)
    if sorted(walked) != sorted(ref.ops):
        raise Violation(
            "walk",
            f"walk visited {len(walked)} tiles, reference ops {len(ref.ops)}; missing {sorted(ref.ops - set(walked))[:4]} "
            f"unexpected {sorted(set(walked) - ref.ops)[:4]} for {desc}",
        )
    if len(walked) != no:
        raise Violation("count-vs-visits", f"count_operations {no} != tiles walked {len(walked)} for {desc}")
    idx = {p: i for i, p in enumerate(walked)}
    for p, i in idx.items():
        for c in rp.children(p):
            if c in idx and idx[c] > i:
                raise Violation("walk-order", f"walk visited {p} before its live child {c} for {desc}")

    # enumeration routes
    if routes:
        gen = getattr(py.Pyramid, "_generator", None)
        if gen is not None:
            seq = [tuple(pos) for pos, _t in mk()._generator()]
            # in scope = reached positions (the root is always yielded last)
            check_postfix_sequence(seq, set(ref.reached), f"pyramid enumeration of {desc}", depth)
        if kind != "generic" and apex is None:
            from toasty import toast

            cs = toast.ToastCoordinateSystem.ASTRONOMICAL if coordsys == "astronomical" else toast.ToastCoordinateSystem.PLANETARY
            exp = set(p for p in ref.reached if p[0] >= 1)
            if kind == "toast":
                tiles = list(toast.generate_tiles(depth, bottom_only=False, coordsys=cs))
                bottom = list(toast.generate_tiles(depth, bottom_only=True, coordsys=cs))
            else:
                tiles = list(toast.generate_tiles_filtered(depth, tile_filter(F), bottom_only=False, coordsys=cs))
                bottom = list(toast.generate_tiles_filtered(depth, tile_filter(F), bottom_only=True, coordsys=cs))
            if depth >= 1:
                check_postfix_sequence([tuple(t.pos) for t in tiles], exp, f"generate_tiles(_filtered) of {desc}", depth)
                bexp = set(p for p in exp if p[0] == depth)
                check_postfix_sequence([tuple(t.pos) for t in bottom], bexp, f"generate_tiles(_filtered, bottom_only) of {desc}", depth)
                if kind == "filtered":
                    n1 = toast.count_tiles_matching_filter(depth, tile_filter(F), bottom_only=True, coordsys=cs)
                    if n1 != len(bexp):
                        raise Violation("count-filter", f"count_tiles_matching_filter = {n1}, reference {len(bexp)} for {desc}")
    return ref, vis_pos, walked


def sub_vs_full(kind, depth, fspec, apex, coordsys, vis_pos, walked):
    """restricting to a sub-pyramid gives exactly the part of the full result below the apex"""
    full_leaves = []
    make_pyramid(kind, depth, fspec, None, coordsys).visit_leaves(lambda pos, t: full_leaves.append(tuple(pos)), parallel=1)
    full_walk = []
    make_pyramid(kind, depth, fspec, None, coordsys).walk(lambda pos: full_walk.append(tuple(pos)), parallel=1)
    a = tuple(apex)
    exp_l = sorted(p for p in full_leaves if rp.is_desc_or_self(p, a))
    exp_w = sorted(p for p in full_walk if rp.is_desc_or_self(p, a))
    if sorted(vis_pos) != exp_l:
        raise Violation("subpyramid", f"leaves of sub-pyramid {apex} != full leaves below the apex ({len(vis_pos)} vs {len(exp_l)}) kind={kind} depth={depth} filter={fspec}")
    if sorted(walked) != exp_w:
        raise Violation("subpyramid", f"walk of sub-pyramid {apex} != full walk below the apex ({len(walked)} vs {len(exp_w)}) kind={kind} depth={depth} filter={fspec}")


def classes_of(kind, depth, fspec, apex, ref):
    cl = [kind, f"depth{depth}"]
    nt = False
    if kind == "filtered":
        if gens.filter_has_gap(fspec, depth):
            cl.append("gap-filter")
            nt = True
        if len(ref.reached) < (4 ** (depth + 1) - 1) // 3:
            nt = True
            cl.append("rejects-something")
    if apex is not None:
        cl.append(f"apex-level{apex[0]}" if apex[0] < depth else "apex-at-depth")
        if apex[0] >= 1:
            nt = True
        if not ref.leaves:
            cl.append("apex-disjoint-from-filter")
    if not ref.leaves:
        cl.append("no-leaves")
    return cl, nt


def exec_pyramid(case):
    global _PRE_REJECT, _GEO
    kind, depth, fspec, apex = case["kind"], case["depth"], case.get("filter"), case.get("apex")
    cs = case.get("coordsys", "astronomical")
    if case.get("geo"):
        # a filter that looks at where the tile is on the sky (as the image-footprint filters do): what it accepts depends on the
        # pyramid's coordinate system; the reference set comes from the reference model of the projection
        fspec, margin = geo_filter_as_positions(case["geo"], depth, cs)
        if margin < 1e-9:
            return Outcome(classes=["geo-filter", "threshold-on-a-tile-centre"], nontrivial=False)
        _GEO = tuple(case["geo"])
        try:
            out = exec_pyramid({k: v for k, v in case.items() if k != "geo"} | {"filter": fspec, "_geo_active": True})
        finally:
            _GEO = None
        out.classes += ["sky-position-filter", "sky-position-filter/" + cs]
        return out
    _PRE_REJECT = case.get("rejected_apex")
    try:
        with toasty_call("pyramid", "pyramid use" + (f" after a refused subpyramid({_PRE_REJECT})" if _PRE_REJECT else "")):
            ref, vis, walked = compare_pyramid(kind, depth, fspec, apex, cs)
            if apex is not None and not (case.get("deep") and kind != "filtered"):
                # (the full pyramid of an unfiltered depth-10+ case has millions of tiles: only the sub-pyramid is judged)
                sub_vs_full(kind, depth, fspec, apex, cs, vis, walked)
    except Violation as v:
        if _PRE_REJECT:
            raise Violation(v.clause, f"after a refused subpyramid({_PRE_REJECT}) request: {v.msg}")
        raise
    finally:
        _PRE_REJECT = None
    cl, nt = classes_of(kind, depth, fspec, apex, ref)
    if case.get("rejected_apex"):
        cl.append("after-refused-subpyramid-request")
    return Outcome(classes=cl, nontrivial=nt, info={"leaves": len(ref.leaves), "live": len(ref.live), "ops": len(ref.ops)})


@st.composite
def strat_pyramid(draw, tier):
    if draw(st.integers(0, 7)) == 0:
        from .. import scen

        return draw(scen.deep_sparse_pyramid())
    maxd = 5 if tier == "quick" else 6
    kind = draw(st.sampled_from(["generic", "toast", "filtered", "filtered", "filtered"]))
    depth = draw(st.integers(0, maxd if kind != "toast" else min(maxd, 5)))
    case = {"kind": kind, "depth": depth}
    if kind == "filtered":
        case["filter"] = draw(gens.filter_specs(depth))
    if kind != "generic":
        case["coordsys"] = draw(st.sampled_from(["astronomical", "planetary"]))
    ap = draw(gens.apexes(depth))
    if ap is not None:
        if kind == "filtered" and draw(st.booleans()) and depth >= 1:
            # aim the apex at something the filter reaches
            ref = rp.RefPyramid(depth, gens.filter_fn(case["filter"]))
            cand = sorted(ref.reached)
            ap = list(cand[draw(st.integers(0, len(cand) - 1))])
        case["apex"] = ap
    if kind == "filtered" and 1 <= depth <= 4 and draw(st.integers(0, 2)) == 0:
        # the filter decides by the tile's sky position (longitude of the centre of its corners inside an interval)
        import math

        case["geo"] = [draw(st.floats(0, 2 * math.pi)), draw(st.floats(0.2, 4.5))]
        case["filter"] = None
        if draw(st.integers(0, 2)) > 0:
            case["apex"] = draw(gens.positions(depth, 1))
    if draw(st.integers(0, 7)) == 0:
        n = depth + draw(st.integers(1, 3))
        case["rejected_apex"] = [n, draw(st.integers(0, 2**n - 1)), draw(st.integers(0, 2**n - 1))]
    return case


def exec_history(case):
    """several pyramids used one after another in one process: each must behave as if it were the only one"""
    cls, nt, seen = set(), False, {}
    for k, spec in enumerate(case["pyramids"]):
        kind, depth, fspec, apex = spec["kind"], spec["depth"], spec.get("filter"), spec.get("apex")
        cs = spec.get("coordsys", "astronomical")
        global _GEO
        if spec.get("geo"):
            fspec, margin = geo_filter_as_positions(spec["geo"], depth, cs)
            if margin < 1e-9:
                continue
            _GEO = tuple(spec["geo"])
            cls.add("sky-position-filter")
        with toasty_call("pyramid", f"pyramid #{k + 1} of the history"):
            try:
                ref, vis, walked = compare_pyramid(kind, depth, fspec, apex, cs, routes=bool(spec.get("routes")))
                if apex is not None:
                    sub_vs_full(kind, depth, fspec, apex, cs, vis, walked)
            except Violation as v:
                raise Violation(v.clause, f"pyramid #{k + 1} of {len(case['pyramids'])} used in one process: {v.msg}")
            finally:
                _GEO = None
        key = (depth, tuple(apex) if apex is not None else None)
        sig = (kind, canonical_filter(fspec), cs)
        if key in seen and seen[key] != sig:
            nt = True
            cls.add("same-depth-and-apex-different-pyramid")
        seen.setdefault(key, sig)
        cls.add(kind)
    cls.add(f"history-of-{len(case['pyramids'])}")
    return Outcome(classes=sorted(cls), nontrivial=nt, count=len(case["pyramids"]))


def canonical_filter(fspec):
    import json

    return json.dumps(fspec, sort_keys=True)


@st.composite
def strat_history(draw, tier):
    first = draw(strat_pyramid("quick"))
    if first["depth"] > 4:
        first["depth"] = 4
        if first["kind"] == "filtered":
            first["filter"] = draw(gens.filter_specs(4))
        if first.get("apex") is not None:
            first["apex"] = draw(gens.apexes(4))
            if first["apex"] is None:
                first.pop("apex")
    out = [first]
    for _ in range(draw(st.integers(1, 3))):
        if draw(st.integers(0, 3)) == 0:
            nxt = draw(strat_pyramid("quick"))
            if nxt["depth"] > 4:
                continue
        else:
            # same depth and apex, another filter / kind / coordinate system
            nxt = {"kind": draw(st.sampled_from(["filtered", "filtered", "filtered", "toast", "generic"])), "depth": first["depth"]}
            if nxt["kind"] == "filtered":
                nxt["filter"] = draw(gens.filter_specs(first["depth"]))
            if nxt["kind"] != "generic":
                nxt["coordsys"] = draw(st.sampled_from(["astronomical", "planetary"]))
            if first.get("apex") is not None:
                nxt["apex"] = first["apex"]
        nxt["routes"] = draw(st.booleans())
        out.append(nxt)
    return {"pyramids": out}


# depth-2 exhaustive filters -----------------------------------------------------

L1 = [(1, 0, 0), (1, 1, 0), (1, 0, 1), (1, 1, 1)]
POS20 = L1 + [c for p in L1 for c in rp.children(p)]


def spec_from_bits(bits):
    acc = [list(POS20[i]) for i in range(20) if bits >> i & 1]
    return {"default": False, "flip": acc}


def enum_filters_d2(tier):
    if tier == "thorough":
        for bits in range(1 << 20):
            yield {"bits": bits, "apex": None}
    else:
        # canonical: children bits only below accepted level-1 tiles (bits below a
        # rejected tile are never consulted)
        for l1 in range(16):
            idx = [i for i in range(4) if l1 >> i & 1]
            for combo in itertools.product(range(16), repeat=len(idx)):
                bits = l1
                for i, cm in zip(idx, combo):
                    bits |= cm << (4 + 4 * i)
                yield {"bits": bits, "apex": None}
    # every apex with every assignment of the bits that can matter
    for apex in [(0, 0, 0)] + POS20:
        if apex[0] == 0:
            continue
        if apex[0] == 1:
            i = L1.index(apex)
            rel = [i] + [4 + 4 * i + k for k in range(4)]
        else:
            par = rp.parent(apex)
            rel = [L1.index(par), POS20.index(apex)]
        for combo in itertools.product([0, 1], repeat=len(rel)):
            for bg in (0, (1 << 20) - 1):
                bits = bg
                for b, v in zip(rel, combo):
                    bits = (bits & ~(1 << b)) | (v << b)
                yield {"bits": bits, "apex": list(apex)}


def exec_filter_d2(case):
    bits, apex = case["bits"], case.get("apex")
    spec = spec_from_bits(bits)
    with toasty_call("pyramid"):
        ref, vis, walked = compare_pyramid("filtered", 2, spec, apex, routes=(bits % 7 == 0))
    cl, nt = classes_of("filtered", 2, spec, apex, ref)
    return Outcome(classes=cl, nontrivial=nt)


def enum_generic_apex(tier):
    maxd = 4 if tier == "quick" else 5
    for depth in range(maxd + 1):
        for p in rp.all_positions(min(depth, 3)):
            yield {"kind": "generic", "depth": depth, "apex": list(p)}
            if depth <= 3:
                yield {"kind": "toast", "depth": depth, "apex": list(p), "coordsys": "astronomical"}


def decode_fuzz(fdp):
    """bytes -> (kind, depth<=4, coordinate system, apex, filter) for the coverage-guided campaign"""
    kind = ["generic", "toast", "filtered", "filtered"][fdp.ConsumeIntInRange(0, 3)]
    depth = fdp.ConsumeIntInRange(0, 4)
    case = {"kind": kind, "depth": depth}
    if kind != "generic":
        case["coordsys"] = "planetary" if fdp.ConsumeBool() else "astronomical"
    if fdp.ConsumeBool():
        n = fdp.ConsumeIntInRange(0, depth)
        case["apex"] = [n, fdp.ConsumeIntInRange(0, 2**n - 1), fdp.ConsumeIntInRange(0, 2**n - 1)]
    if kind == "filtered":
        flips = []
        for _ in range(fdp.ConsumeIntInRange(0, 12)):
            n = fdp.ConsumeIntInRange(1, max(1, depth))
            flips.append([n, fdp.ConsumeIntInRange(0, 2**n - 1), fdp.ConsumeIntInRange(0, 2**n - 1)])
        case["filter"] = {"default": fdp.ConsumeBool(), "flip": sorted(flips)}
        if depth == 0:
            case["filter"] = {"default": True, "flip": []}
    return case


PARTS = [
    Part(
        "algebra_exhaustive",
        exec_algebra_row,
        enumerate=enum_algebra,
        shards={"quick": 8, "thorough": 16},
        describe="parent/children/is_subtile relations for every position to depth 7 (quick) / 9 (thorough), one case per row",
    ),
    Part(
        "algebra_deep",
        exec_algebra_deep,
        strategy=lambda tier: strat_algebra_deep(),
        examples={"quick": 2000, "thorough": 100000},
        shards={"quick": 4, "thorough": 16},
        describe="sampled positions to depth 40, related and unrelated pairs for is_subtile",
    ),
    Part(
        "generate_pos",
        exec_generate_pos,
        enumerate=lambda tier: ({"depth": d} for d in range(0, 8 if tier == "quick" else 10)),
        shards={"quick": 4, "thorough": 10},
        describe="generate_pos(depth) for every depth to 7 (quick) / 9 (thorough)",
    ),
    Part(
        "filters_depth2",
        exec_filter_d2,
        enumerate=enum_filters_d2,
        shards={"quick": 16, "thorough": 16},
        budget_s={"quick": 80, "thorough": 1500},
        describe="every canonical (quick: 83521) / every raw (thorough: 2^20) accepted-set filter of a depth-2 TOAST pyramid, and all 20 apexes x all assignments of the filter bits that matter",
    ),
    Part(
        "generic_apex",
        exec_pyramid,
        enumerate=enum_generic_apex,
        shards={"quick": 8, "thorough": 16},
        describe="unfiltered generic and TOAST pyramids with every apex to level 3 for every depth to 4/5 (incl. apex depth == pyramid depth)",
    ),
    Part(
        "fuzz_pyramids",
        exec_pyramid,
        decode=decode_fuzz,
        instrument=["toasty.pyramid", "toasty.toast"],
        examples={"quick": 6000, "thorough": 400000},
        shards={"quick": 4, "thorough": 16},
        budget_s={"quick": 60, "thorough": 1500},
        engine="atheris (libFuzzer) coverage-guided, oracle inside the target",
        describe="coverage-guided fuzzing of toasty.pyramid / toasty.toast: bytes decoded to (kind, depth<=4, apex, filter); the RefPyramid oracle runs inside the fuzz target; empty starting corpus",
    ),
    Part(
        "pyramid_histories",
        exec_history,
        strategy=strat_history,
        examples={"quick": 600, "thorough": 30000},
        shards={"quick": 8, "thorough": 16},
        budget_s={"quick": 60, "thorough": 1200},
        describe="2-4 pyramids (mostly the same depth and apex with different filters / kinds / systems) used one after another in one process, each judged against RefPyramid",
    ),
    Part(
        "random_pyramids",
        exec_pyramid,
        strategy=strat_pyramid,
        examples={"quick": 1600, "thorough": 60000},
        shards={"quick": 16, "thorough": 16},
        budget_s={"quick": 60, "thorough": 1200},
        describe="Hypothesis-generated kind x depth x filter x apex x coordinate system",
    ),
]
