"""C07 — Tile filters never drop a tile holding data: filtered sampling leaves no holes."""

import math
import os
import warnings

import numpy as np
from hypothesis import strategies as st

from ..core import Part, Outcome, Violation, HarnessError, toasty_call, fresh_dir
from .. import refpyramid as rp
from .. import reftoast as rt
from .. import gens, wcsgen
from .c15 import decode_independently

PROPERTY_ID = "C07"
LEVEL = "exploration"
RULE = (
    "Three filter factories. (box) latitude/longitude boxes with any longitude origin in [-4pi,4pi], width 1e-3..5pi, latitudes "
    "anywhere incl. exactly +-pi/2, seam-hugging boxes; probe tiles: generated positions to depth 4 and tiles located (RefToast) "
    "at the box's corners / edge points at depth <=12. (image) WcsSampler over generated images of 1..120 px per axis with a "
    "generated WCS (5 projections, scale 1e-4..0.3 deg/px, rotation, skew, both parities, centre anywhere incl. RA~0, |dec|<=80); "
    "probe tiles are AIMED at the footprint's extremes: the four pixel-edge lines are sampled at 40 points per pixel, the boundary "
    "point of max/min latitude or max/min unwrapped longitude (or a ring / random point) is moved inward by 0.01-0.45 image pixels "
    "and the TOAST tile containing it at a depth where TOAST-pixel/image-pixel is in [1/1024, 4] is taken; polar images put a "
    "celestial pole on or anywhere inside a chosen pixel (first / last row or column included) and are probed down to 1/16384. (chunk) "
    "ChunkedPlateCarreeSampler over a harness chunked image with a generated chunk grid (ragged last chunks). Direct oracle: if "
    "any RefToast pixel centre of the tile lies inside the box / inside the image by >= 0.05 px / inside the chunk, the filter "
    "must return True for the tile AND for every ancestor from level 1 (the pruned descent must reach it); the tile object is "
    "unchanged by the call. End-to-end oracle: sample_layer_filtered == sample_layer pixel for pixel (missing tile = all "
    "undefined) at depth <=3; tile_fits in TOAST mode of a collection of 1-3 FITS images (one footprint filter per image, their "
    "union for the downsampling) == the same samplers and the same downsampling applied to every tile without any filter, for "
    "every tile of every level (base level 2..4); sampling all chunks one after another == whole-map sampling up to the either-neighbour rule on "
    "cell boundaries, every pixel defined. Non-trivial: the tile has pixel centres both inside and outside, or lies in the outer "
    "pixel ring of the image."
)
ASSUMPTIONS = [
    "a pixel centre counts as holding image data only if it is >= 0.05 image pixels inside the footprint (the per-pixel refinement of the bounds has a second-order residual of <= ~0.005 px for the generated scales)",
    "RefToast pixel centres and point location",
]


def cs_of(planetary):
    from toasty import toast

    return toast.ToastCoordinateSystem.PLANETARY if planetary else toast.ToastCoordinateSystem.ASTRONOMICAL


def check_filter_on_tile(flt, pos, planetary, expect_accept, what):
    """call the filter for the tile and all its ancestors; verify acceptance and that the tile is untouched"""
    from toasty import toast
    from toasty.pyramid import Pos

    n = pos[0]
    for lev in range(n, 0, -1):
        p = rp.ancestor_at(pos, lev)
        tile = toast.create_single_tile(Pos(*p), coordsys=cs_of(planetary))
        before = (tuple(tile.pos), np.array(tile.corners, dtype=float).copy(), bool(tile.increasing), repr(tile))
        with toasty_call("filter", what):
            r = flt(tile)
        after = np.array(tile.corners, dtype=float)
        if tuple(tile.pos) != before[0] or bool(tile.increasing) != before[2] or not np.array_equal(after, before[1]) or repr(tile) != before[3]:
            raise Violation("tile-modified", f"{what}: the filter modified tile {p} (corners before {before[1].tolist()}, after {after.tolist()})")
        if expect_accept and not bool(r):
            rel = "the tile itself" if lev == n else f"ancestor {p} of tile {pos}"
            raise Violation("false-negative", f"{what}: tile {pos} holds data but the filter rejects {rel}")
    return True


# ------------------------------------------------------------------ boxes


def in_box(lon, lat, box):
    lo0, lo1, la0, la1 = box
    ok_lat = (lat >= la0) & (lat <= la1)
    k = np.ceil((lo0 - lon) / (2 * math.pi))
    ok_lon = lon + 2 * math.pi * k <= lo1
    return ok_lat & ok_lon


def exec_box(case):
    from toasty import samplers

    make = getattr(samplers, "_latlon_tile_filter", None)
    if make is None:
        return Outcome(classes=["box", "route-missing"], nontrivial=False)
    box = case["box"]
    planetary = case["planetary"]
    with toasty_call("filter-factory"):
        flt = make(*box)
    what = f"box filter lon [{box[0]!r}, {box[1]!r}] lat [{box[2]!r}, {box[3]!r}] ({'planetary' if planetary else 'astronomical'})"
    nt = False
    cls = ["box"]
    if box[1] - box[0] >= 2 * math.pi:
        cls.append("wider-than-2pi")
    if abs(box[2]) >= math.pi / 2 - 1e-12 or abs(box[3]) >= math.pi / 2 - 1e-12:
        cls.append("touches-pole")
    # the same filter object may be asked about tiles of both coordinate systems, one after the other
    first = planetary
    systems = [first, not first] if case.get("both") else [first]
    if len(systems) == 2:
        cls.append("one-filter-both-systems")
    for planetary, pr in [(sy, pr) for sy in systems for pr in case["probes"]]:
        what = f"box filter lon [{box[0]!r}, {box[1]!r}] lat [{box[2]!r}, {box[3]!r}] ({'planetary' if planetary else 'astronomical'}{', after the other system' if planetary != first else ''})"
        if pr["kind"] == "pos":
            pos = tuple(pr["pos"])
        else:
            # a tile located at a corner / edge point of the box
            u, v = pr["uv"]
            lon = box[0] + u * (box[1] - box[0])
            lat = box[2] + v * (box[3] - box[2])
            pos = rt.locate(pr["depth"], rt.lonlat_to_vec(lon, lat), planetary)
            if pos is None:
                continue
        pc = rt.pixel_centres(*pos, planetary=planetary)
        lon, lat = rt.vec_to_lonlat(pc)
        inside = in_box(lon, lat, box)
        # centres within rounding distance of the box edge are not decisive
        margin = 1e-9
        inner = in_box(lon, lat, (box[0] + margin, box[1] - margin, box[2] + margin, box[3] - margin)) if (box[1] - box[0] > 3 * margin and box[3] - box[2] > 3 * margin) else np.zeros_like(inside)
        check_filter_on_tile(flt, pos, planetary, bool(inner.any()), what)
        if inside.any() and not inside.all():
            nt = True
            cls.append("straddles-box-edge")
        if inside.any():
            cls.append("tile-has-data")
    return Outcome(classes=sorted(set(cls)), nontrivial=nt, count=len(case["probes"]) * len(systems))


@st.composite
def strat_box(draw, tier):
    lon0 = draw(st.one_of(st.floats(-4 * math.pi, 4 * math.pi), st.sampled_from([0.0, -math.pi, math.pi, 2 * math.pi - 1e-3, -1e-3])))
    w = 10 ** draw(st.floats(-3, math.log10(5 * math.pi)))
    la = sorted([draw(st.one_of(st.floats(-math.pi / 2, math.pi / 2), st.sampled_from([-math.pi / 2, math.pi / 2, 0.0]))) for _ in range(2)])
    if la[1] - la[0] < 1e-6:
        la[1] = min(math.pi / 2, la[0] + 1e-3)
        if la[1] - la[0] < 1e-6:
            la[0] = la[1] - 1e-3
    probes = []
    for _ in range(draw(st.integers(1, 5))):
        if draw(st.booleans()):
            probes.append({"kind": "pos", "pos": draw(gens.positions(4, 1))})
        else:
            probes.append({"kind": "at", "uv": [draw(st.sampled_from([0.0, 1.0, 0.5, 0.001, 0.999])), draw(st.sampled_from([0.0, 1.0, 0.5, 0.001, 0.999]))], "depth": draw(st.integers(1, 12))})
    return {"box": [lon0, lon0 + w, la[0], la[1]], "planetary": draw(st.booleans()), "probes": probes, "both": draw(st.integers(0, 2)) == 0}


# ------------------------------------------------------------------ image footprints


def edge_point(W, H, side, t):
    """pixel coordinates (0-based) of the point at fraction t of pixel-edge line `side` (walking round the image from the
    first corner along the first row)"""
    t = min(1.0, max(0.0, t))
    return [(-0.5 + t * W, -0.5), (W - 0.5, -0.5 + t * H), (W - 0.5 - t * W, H - 0.5), (-0.5, H - 0.5 - t * H)][side % 4]


def image_setup(case):
    from toasty.samplers import WcsSampler

    W, H = case["size"]
    spec = dict(case["wcs"])
    if case.get("seam_at") is not None:
        # rotate the image in right ascension (exact symmetry) so that RA = 0 falls on a chosen point of its boundary
        side, t = case["seam_at"]
        x, y = edge_point(W, H, side, t)
        with warnings.catch_warnings():
            warnings.simplefilter("ignore")
            ra0 = wcsgen.wcs_of(spec, W, H).wcs_pix2world([[x, y]], 0)[0][0]
        if np.isfinite(ra0):
            spec["ra"] = float((spec["ra"] - ra0) % 360.0)
    wcs = wcsgen.wcs_of(spec, W, H)
    data = (np.arange(W * H, dtype=np.float32).reshape(H, W) % 251) + 1
    with warnings.catch_warnings():
        warnings.simplefilter("ignore")
        ws = WcsSampler(data, wcs)
    return ws, wcs, data


def boundary_points(wcs, W, H, per_pixel=40):
    """pixel coordinates (0-based) and world lon/lat (rad) along the four pixel-edge lines of the image"""
    nx = max(2, int(W * per_pixel) + 1)
    ny = max(2, int(H * per_pixel) + 1)
    xs = np.linspace(-0.5, W - 0.5, nx)
    ys = np.linspace(-0.5, H - 0.5, ny)
    px = np.concatenate([xs, np.full(ny, W - 0.5), xs[::-1], np.full(ny, -0.5)])
    py = np.concatenate([np.full(nx, -0.5), ys, np.full(nx, H - 0.5), ys[::-1]])
    with warnings.catch_warnings():
        warnings.simplefilter("ignore")
        w = wcs.wcs_pix2world(np.column_stack([px, py]), 0)
    return px, py, np.radians(w[:, 0]), np.radians(w[:, 1])


def exec_image(case):
    W, H = case["size"]
    planetary = bool(case.get("planetary"))
    ws, wcs, data = image_setup(case)
    px, py, blon, blat = boundary_points(wcs, W, H)
    ok = np.isfinite(blon) & np.isfinite(blat)
    if not ok.all():
        # part of the pixel grid has no sky position (outside the projection's domain): not an image footprint
        return Outcome(classes=["image", "footprint-leaves-projection-domain"], nontrivial=False)
    with toasty_call("filter-factory", f"WcsSampler({W}x{H}).filter() for wcs {case['wcs']}"):
        with warnings.catch_warnings():
            warnings.simplefilter("ignore")
            flt = ws.filter()
    ulon = np.unwrap(blon)
    scale_deg = case["wcs"]["scale"]
    what0 = f"WcsSampler filter of a {W}x{H} image, wcs {case['wcs']}" + (f", RA=0 placed at edge point {case['seam_at']}" if case.get("seam_at") is not None else "") + (" (planetary tiles)" if planetary else "")
    nt = False
    cls = ["image", case["wcs"]["proj"]]
    if case.get("seam_at") is not None:
        cls.append("ra0-on-chosen-edge-point")
    if planetary:
        cls.append("planetary-tiles")
    if min(W, H) < 32:
        cls.append("narrow-image")
    if max(W, H) >= 300:
        cls.append("large-image")
    if (ulon.max() - ulon.min()) > 2 * math.pi - 1e-6:
        cls.append("wraps-all-longitudes")
    if blon.min() < 0.2 and blon.max() > 2 * math.pi - 0.2:
        cls.append("crosses-ra0")
    n_probes = 0
    for pr in case["probes"]:
        kind = pr["kind"]
        if kind == "latmax":
            i = int(np.argmax(blat))
        elif kind == "latmin":
            i = int(np.argmin(blat))
        elif kind == "lonmax":
            i = int(np.argmax(ulon))
        elif kind == "lonmin":
            i = int(np.argmin(ulon))
        else:
            i = int(pr["frac"] * (len(px) - 1))
        cx, cy = (W - 1) / 2, (H - 1) / 2
        if kind == "pole":
            # a celestial pole lying inside the image: the latitude extreme is in the interior
            with warnings.catch_warnings():
                warnings.simplefilter("ignore")
                pp = wcs.wcs_world2pix([[0.0, 90.0], [0.0, -90.0]], 0)
            cand = [q for q in pp if np.isfinite(q).all() and -0.5 + 0.2 <= q[0] <= W - 0.5 - 0.2 and -0.5 + 0.2 <= q[1] <= H - 0.5 - 0.2]
            if not cand:
                continue
            q = cand[0]
            qx = q[0] + (pr["frac"] - 0.5) * 0.1
            qy = q[1] + (pr["frac2"] - 0.5) * 0.1
        elif kind == "interior":
            qx = -0.5 + pr["frac"] * W
            qy = -0.5 + pr["frac2"] * H
        elif kind == "seam":
            # next to the boundary point where RA = 0 was placed (or next to the first corner), just inside the image
            side, t = case.get("seam_at") or [0, 0.0]
            ex, ey = edge_point(W, H, side, t + (pr["frac"] - 0.5) * 0.07)
            vx, vy = cx - ex, cy - ey
            nrm = math.hypot(vx, vy) or 1.0
            qx = ex + pr["shift"] * vx / nrm
            qy = ey + pr["shift"] * vy / nrm
        else:
            vx, vy = cx - px[i], cy - py[i]
            nrm = math.hypot(vx, vy) or 1.0
            qx = px[i] + pr["shift"] * vx / nrm
            qy = py[i] + pr["shift"] * vy / nrm
        with warnings.catch_warnings():
            warnings.simplefilter("ignore")
            wv = wcs.wcs_pix2world([[qx, qy]], 0)[0]
        if not np.isfinite(wv).all():
            continue
        p = rt.lonlat_to_vec(math.radians(wv[0]), math.radians(wv[1]))
        toast_px_deg = scale_deg * pr["ratio"]
        d = int(round(1 + math.log2(0.3515625 / toast_px_deg)))
        d = max(1, min(18, d))
        pos = rt.locate(d, p, planetary)
        if pos is None:
            continue
        pc = rt.pixel_centres(*pos, planetary=planetary)
        lon, lat = rt.vec_to_lonlat(pc)
        with warnings.catch_warnings():
            warnings.simplefilter("ignore")
            pix = wcs.wcs_world2pix(np.column_stack([np.degrees(lon).ravel(), np.degrees(lat).ravel()]), 0)
            # guard against the mirror solution of projections that cover the whole sky plane
            back = wcs.wcs_pix2world(pix, 0)
        m = 0.05
        x, y = pix[:, 0], pix[:, 1]
        good = np.isfinite(x) & np.isfinite(y)
        bv = rt.lonlat_to_vec(np.radians(back[:, 0]), np.radians(back[:, 1]))
        good &= rt.ang_dist(bv, pc.reshape(-1, 3)) < 1e-7
        inside = good & (x >= -0.5 + m) & (x <= W - 0.5 - m) & (y >= -0.5 + m) & (y <= H - 0.5 - m)
        loosely = good & (x >= -0.5) & (x <= W - 0.5) & (y >= -0.5) & (y <= H - 0.5)
        what = f"{what0}; probe {pr} -> tile {pos}"
        check_filter_on_tile(flt, pos, planetary, bool(inside.any()), what)
        n_probes += 1
        ring = inside & ((x < 0.5) | (x > W - 1.5) | (y < 0.5) | (y > H - 1.5))
        if inside.any() and (not loosely.all() or ring.any()):
            nt = True
        cls.append("probe:" + kind)
        if inside.any():
            cls.append("tile-has-data")
    return Outcome(classes=sorted(set(cls)), nontrivial=nt, count=n_probes)


@st.composite
def image_cases(draw, tier, max_scale_log=-0.52):
    W = draw(st.one_of(st.integers(1, 120), st.sampled_from([1, 2, 3, 10, 31, 32, 61, 62, 63, 64])))
    H = draw(st.one_of(st.integers(1, 120), st.sampled_from([1, 2, 3, 10, 31, 32, 61, 62, 63, 64])))
    spec = draw(wcsgen.wcs_specs(max_dec=80.0, max_scale_log=max_scale_log))
    if spec["crpix_mode"] == "outside":
        spec["crpix_mode"] = "inside"
    return {"size": [W, H], "wcs": spec}


@st.composite
def strat_image(draw, tier):
    case = draw(image_cases(tier))
    polar = draw(st.integers(0, 4)) == 0
    deep = False
    if polar:
        # an image with a celestial pole well inside it (latitude extreme in the interior, all longitudes)
        case["size"] = [draw(st.integers(20, 120)), draw(st.integers(20, 120))]
        case["wcs"]["dec"] = draw(st.sampled_from([1, -1])) * draw(st.floats(88.5, 89.95))
        case["wcs"]["scale"] = draw(st.sampled_from([0.02, 0.05, 0.1]))
        case["wcs"]["crpix_mode"] = "half"
        case["wcs"]["skew"] = 0.0
        case["wcs"]["ratio"] = 1.0
        if draw(st.booleans()):
            # put the pole exactly on a chosen pixel, including the first / last row or column
            case["wcs"]["dec"] = draw(st.sampled_from([90.0, -90.0]))
            case["wcs"]["crpix_mode"] = "inside"
            case["wcs"]["crpix_u"] = draw(st.sampled_from([0.0, 1.0, 0.5, 0.013, 0.987]))
            case["wcs"]["crpix_v"] = draw(st.sampled_from([0.0, 1.0, 0.5, 0.013, 0.987]))
            if draw(st.booleans()):
                # ... or anywhere inside a pixel of the first / last column or row (FITS pixel coordinate 0.5+f, N-0.5+f)
                for key, N in (("crpix_u", case["size"][0]), ("crpix_v", case["size"][1])):
                    cell = draw(st.sampled_from(["first", "last", "any"]))
                    f = draw(st.floats(0.05, 0.95))
                    c = {"first": 0.5 + f, "last": N - 0.5 + f, "any": 0.5 + f + draw(st.integers(0, N - 1))}[cell]
                    case["wcs"][key] = (c - 1) / (N - 1)
            deep = True
    grazing = (not polar) and draw(st.integers(0, 5)) == 0
    if grazing:
        # a LARGE image (hundreds to thousands of pixels on its long side) one of whose long edges passes a celestial pole at
        # a distance of R pixels without containing it: the latitude extreme is the foot of the perpendicular from the pole
        # onto that edge, somewhere between the corners
        W = draw(st.sampled_from([300, 400, 640, 1000, 1600, 3100]))
        Hh = draw(st.integers(40, 400))
        R = draw(st.sampled_from([8, 20, 50, 120, 450]))
        sc = draw(st.sampled_from([0.002, 0.01, 0.02]))
        if (Hh / 2 + R + W / 2) * sc > 40:
            sc = 0.002
        long_axis_first = draw(st.booleans())
        case["size"] = [W, Hh] if long_axis_first else [Hh, W]
        sgn = draw(st.sampled_from([1, -1]))
        case["wcs"].update(proj=draw(st.sampled_from(["TAN", "TAN", "STG", "ARC"])), scale=sc, ratio=1.0, skew=0.0, crpix_mode="inside",
                           crpix_u=draw(st.floats(0.2, 0.8)) if long_axis_first else 0.5, crpix_v=0.5 if long_axis_first else draw(st.floats(0.2, 0.8)),
                           dec=sgn * (90.0 - (Hh / 2 + R) * sc),
                           rot=(0.0 if long_axis_first else 90.0) + draw(st.sampled_from([0.0, 180.0])) + draw(st.floats(-8, 8)))
    seam = draw(st.integers(0, 2)) > 0 if polar else draw(st.integers(0, 3)) == 0
    if seam:
        # RA = 0 on a chosen boundary point, mostly within a fraction of a side from a corner (where an unwrapping walk
        # starts / ends; for an image that contains a pole the walk must close the full turn there)
        if draw(st.integers(0, 3 if polar else 1)) > 0:
            side, t = draw(st.sampled_from([[3, 1.0 - draw(st.floats(0.0, 0.04))], [0, draw(st.floats(0.0, 0.04))]]))
        else:
            side = draw(st.sampled_from([0, 3, 1, 2]))
            t = draw(st.one_of(st.floats(0, 1), st.floats(0, 0.05), st.floats(0.95, 1)))
        case["seam_at"] = [side, t]
    if draw(st.integers(0, 5)) == 0:
        case["planetary"] = True
    probes = []
    for _ in range(draw(st.integers(3, 8) if polar else st.integers(2, 6))):
        kinds = ["pole", "pole", "interior", "ring"] if polar else ["latmax", "latmin", "lonmax", "lonmin", "latmax", "latmin", "lonmax", "lonmin", "ring", "interior", "pole"]
        if seam:
            kinds = kinds + ["seam"] * (len(kinds) if polar else len(kinds) // 2)
        kind = draw(st.sampled_from(kinds))
        if grazing:
            kind = draw(st.sampled_from(["latmax", "latmin", "latmax", "latmin", "ring"]))
        pr = {"kind": kind, "shift": draw(st.floats(0.01, 0.45)), "ratio": 2 ** (draw(st.floats(-14, -8)) if (polar and (kind == "seam" or (kind == "pole" and deep and draw(st.booleans())))) else draw(st.floats(-14 if deep else -10, 2))), "frac": draw(st.floats(0, 1)), "frac2": draw(st.floats(0, 1))}
        probes.append(pr)
    case["probes"] = probes
    return case


# ------------------------------------------------------------------ chunked maps


class FakeChunked(object):
    """implements the documented chunked-image protocol: shape, n_chunks, chunk_spec, chunk_data"""

    def __init__(self, ny, nx, xs, ys, mode):
        self.shape = (ny, nx) + ((3,) if mode == "RGB" else ())
        self._xs = xs  # chunk boundaries along x: [0, ..., nx]
        self._ys = ys
        self._mode = mode
        r, c = np.indices((ny, nx))
        if mode == "F32":
            self._data = (r * 1000 + c + 1).astype(np.float32)
        elif mode == "U8":
            self._data = ((r * 16 + c) % 255 + 1).astype(np.uint8)
        else:
            self._data = np.stack([r % 250 + 1, c % 250 + 1, (r + c) % 250 + 1], axis=-1).astype(np.uint8)

    @property
    def n_chunks(self):
        return (len(self._xs) - 1) * (len(self._ys) - 1)

    def chunk_spec(self, i):
        nxc = len(self._xs) - 1
        ix, iy = i % nxc, i // nxc
        return self._xs[ix], self._ys[iy], self._xs[ix + 1] - self._xs[ix], self._ys[iy + 1] - self._ys[iy]

    def chunk_data(self, i):
        cx, cy, cw, ch = self.chunk_spec(i)
        return self._data[cy : cy + ch, cx : cx + cw].copy()


def make_chunked(case):
    from toasty.samplers import ChunkedPlateCarreeSampler

    img = FakeChunked(case["ny"], case["nx"], case["xs"], case["ys"], case["mode"])
    return img, ChunkedPlateCarreeSampler(img, planetary=True)


def chunk_box(case, img, i):
    cx, cy, cw, ch = img.chunk_spec(i)
    sx = 2 * math.pi / case["nx"]
    sy = math.pi / case["ny"]
    return (sx * cx - math.pi, sx * (cx + cw) - math.pi, math.pi / 2 - sy * (cy + ch), math.pi / 2 - sy * cy)


def exec_chunk(case):
    planetary = True
    with toasty_call("filter-factory"):
        img, cs = make_chunked(case)
    nt = False
    cls = ["chunk", f"chunks{img.n_chunks}"]
    n = 0
    for pr in case["probes"]:
        i = pr["chunk"] % img.n_chunks
        box = chunk_box(case, img, i)
        with toasty_call("filter-factory"):
            flt = cs.filter(i)
        if pr["kind"] == "pos":
            pos = tuple(pr["pos"])
        else:
            u, v = pr["uv"]
            pos = rt.locate(pr["depth"], rt.lonlat_to_vec(box[0] + u * (box[1] - box[0]), box[2] + v * (box[3] - box[2])), planetary)
            if pos is None:
                continue
        pc = rt.pixel_centres(*pos, planetary=planetary)
        lon, lat = rt.vec_to_lonlat(pc)
        lonn = (lon + math.pi) % (2 * math.pi) - math.pi
        mg = 1e-9
        inner = (lonn >= box[0] + mg) & (lonn <= box[1] - mg) & (lat >= box[2] + mg) & (lat <= box[3] - mg)
        what = f"chunk filter {i} of a {case['ny']}x{case['nx']} map with chunk grid xs={case['xs']} ys={case['ys']}"
        check_filter_on_tile(flt, pos, planetary, bool(inner.any()), what)
        n += 1
        if inner.any() and not inner.all():
            nt = True
    return Outcome(classes=cls, nontrivial=nt, count=n)


@st.composite
def chunk_cases(draw, tier, small=False):
    ny = draw(st.sampled_from([4, 8, 16, 31, 32] if small else [4, 8, 16, 31, 32, 64, 100]))
    nx = draw(st.sampled_from([8, 16, 32, 63, 64] if small else [8, 16, 32, 63, 64, 128, 200]))

    def cuts(n):
        k = draw(st.integers(1, 4))
        inner = sorted(set(draw(st.lists(st.integers(1, n - 1), min_size=k - 1, max_size=k - 1))))
        return [0] + inner + [n]

    return {"ny": ny, "nx": nx, "xs": cuts(nx), "ys": cuts(ny), "mode": draw(st.sampled_from(["F32", "U8", "RGB"]))}


@st.composite
def strat_chunk(draw, tier):
    case = draw(chunk_cases(tier))
    probes = []
    for _ in range(draw(st.integers(1, 5))):
        if draw(st.booleans()):
            probes.append({"kind": "pos", "chunk": draw(st.integers(0, 15)), "pos": draw(gens.positions(4, 1))})
        else:
            probes.append({"kind": "at", "chunk": draw(st.integers(0, 15)), "uv": [draw(st.sampled_from([0.0, 1.0, 0.5, 0.01, 0.99])), draw(st.sampled_from([0.0, 1.0, 0.5, 0.01, 0.99]))], "depth": draw(st.integers(1, 10))})
    case["probes"] = probes
    return case


# ------------------------------------------------------------------ end to end


def read_layer(pio, depth, fmt):
    from toasty.pyramid import Pos

    out = {}
    for y in range(2**depth):
        for x in range(2**depth):
            p = pio.tile_path(Pos(depth, x, y), makedirs=False)
            if os.path.exists(p):
                a = np.asarray(decode_independently(p, fmt))
                out[(depth, x, y)] = a[::-1] if fmt == "fits" else a
    return out


def exec_image_e2e(case):
    from toasty import toast
    from toasty.pyramid import PyramidIO

    W, H = case["size"]
    depth = case["depth"]
    with toasty_call("filter-factory"):
        ws, wcs, data = image_setup(case)
    _px, _py, blon, blat = boundary_points(wcs, W, H, per_pixel=4)
    if not (np.isfinite(blon).all() and np.isfinite(blat).all()):
        # part of the pixel grid has no sky position at all (outside the projection's domain)
        return Outcome(classes=["image-end-to-end", "footprint-leaves-projection-domain"], nontrivial=False)
    with fresh_dir("c07e-") as d:
        with warnings.catch_warnings():
            warnings.simplefilter("ignore")
            with toasty_call("sampling", "sample_layer_filtered with the image's own filter"):
                pf = PyramidIO(os.path.join(d, "f"), default_format="npy")
                toast.sample_layer_filtered(pf, ws.filter(), ws.sampler(), depth, parallel=1)
            with toasty_call("sampling", "sample_layer (all tiles)"):
                pa = PyramidIO(os.path.join(d, "a"), default_format="npy")
                toast.sample_layer(pa, ws.sampler(), depth, format="npy", parallel=1)
        f = read_layer(pf, depth, "npy")
        a = read_layer(pa, depth, "npy")
    ndef = 0
    for p in sorted(set(f) | set(a)):
        fa = f.get(p)
        aa = a.get(p)
        if aa is None:
            aa = np.full((256, 256), np.nan, dtype=np.float32)
        if fa is None:
            fa = np.full((256, 256), np.nan, dtype=np.float32)
        ndef += int(np.isfinite(aa).sum())
        if not np.array_equal(fa, aa, equal_nan=True):
            miss = np.isfinite(aa) & ~np.isfinite(fa)
            raise Violation(
                "holes",
                f"filtered sampling of a {W}x{H} image (wcs {case['wcs']}) at depth {depth}: tile {p} differs from exhaustive sampling; {int(miss.sum())} defined pixels are missing ({'tile not produced' if p not in f else 'tile produced'})",
            )
    return Outcome(classes=["image-end-to-end", f"depth{depth}", "has-data" if ndef else "no-data"], nontrivial=ndef > 0, info={"defined_pixels": ndef})


@st.composite
def strat_image_e2e(draw, tier):
    case = draw(image_cases(tier, max_scale_log=-0.3))
    # make the image large on the sky so that it matters at shallow depth
    case["wcs"]["scale"] = draw(st.sampled_from([0.3, 0.5, 0.12]))
    case["depth"] = draw(st.sampled_from([1, 2, 2, 3] if tier == "thorough" else [1, 2, 2]))
    return case


def exec_collection_e2e(case):
    """FITS auto-tiling of a collection in TOAST mode (every image sampled under its own footprint filter, the downsampling
    restricted to the union of the filters) against the same pipeline without any filter: every tile of every level"""
    import toasty
    from astropy.io import fits
    from toasty import toast
    from toasty.merge import averaging_merger, cascade_images
    from toasty.pyramid import Pyramid, PyramidIO, Pos
    from toasty.samplers import WcsSampler

    start = case["start"]
    old_env = os.environ.get("SLURM_NPROCS")
    os.environ["SLURM_NPROCS"] = "1"
    try:
        with fresh_dir("c07c-") as d, warnings.catch_warnings():
            warnings.simplefilter("ignore")
            paths, arrays = [], []
            for i, im in enumerate(case["images"]):
                w, h = im["size"]
                y, x = np.indices((h, w))
                data = (((x * 7 + y * 3) % 50 + 1) * im["gain"] + im["offset"]).astype(np.float32)
                wc = wcsgen.wcs_of(im["wcs"], w, h)
                _px, _py, blon, blat = boundary_points(wc, w, h, per_pixel=4)
                if not (np.isfinite(blon).all() and np.isfinite(blat).all()):
                    return Outcome(classes=["collection-end-to-end", "footprint-leaves-projection-domain"], nontrivial=False)
                pth = os.path.join(d, f"im{i}.fits")
                fits.writeto(pth, data, header=wcsgen.header_of(im["wcs"], w, h))
                paths.append(pth)
            what = f"tile_fits TOAST of {len(paths)} images {[(im['size'], im['wcs']['ra'], im['wcs']['dec'], im['wcs']['scale']) for im in case['images']]}, start={start}"
            out = os.path.join(d, "out")
            with toasty_call("sampling", what):
                toasty.tile_fits(paths, out_dir=out, parallel=1, tiling_method=toasty.TilingMethod.TOAST, start=start)
            # the same without filters: every image sampled into every tile (merging), then an unfiltered cascade
            ref = os.path.join(d, "ref")
            pr = PyramidIO(ref, default_format="fits")
            with toasty_call("sampling", "the unfiltered reference pipeline"):
                from toasty.collection import SimpleFitsCollection

                for image in SimpleFitsCollection(paths).images():
                    ws = WcsSampler(data=image.asarray(), wcs=image.wcs)
                    proc = toast.ToastSampler(pr, ws.sampler(), False, format="fits")
                    Pyramid.new_toast(start).visit_leaves(proc.visit_callback, parallel=1)
                cascade_images(pr, start, averaging_merger, parallel=1)
            po = PyramidIO(out, default_format="fits")
            ndef = 0
            tiles_with_data = 0
            for n in range(start, -1, -1):
                for yy in range(2**n):
                    for xx in range(2**n):
                        pa = pr.tile_path(Pos(n, xx, yy), makedirs=False)
                        if not os.path.exists(pa):
                            continue
                        with fits.open(pa) as hl:
                            a = np.array(hl[0].data)
                        fin = np.isfinite(a)
                        if not fin.any():
                            continue
                        ndef += int(fin.sum())
                        tiles_with_data += 1
                        pf = po.tile_path(Pos(n, xx, yy), makedirs=False)
                        if not os.path.exists(pf):
                            raise Violation("holes", f"{what}: tile {(n, xx, yy)} holds {int(fin.sum())} defined pixels when no filter is used but was not produced")
                        with fits.open(pf) as hl:
                            f = np.array(hl[0].data)
                        if not np.array_equal(f, a, equal_nan=True):
                            miss = fin & ~np.isfinite(f)
                            raise Violation("holes", f"{what}: tile {(n, xx, yy)} differs from the unfiltered pipeline; {int(miss.sum())} defined pixels are missing, {int((fin & np.isfinite(f) & (f != a)).sum())} have other values")
    finally:
        if old_env is None:
            os.environ.pop("SLURM_NPROCS", None)
        else:
            os.environ["SLURM_NPROCS"] = old_env
    cls = ["collection-end-to-end", f"images{len(case['images'])}", f"start{start}", "has-data" if ndef else "no-data"]
    # images whose centres lie in different tiles one level above the base layer: the union of the filters matters
    cells = set()
    for im in case["images"]:
        q = rt.locate(max(start - 1, 1), rt.lonlat_to_vec(math.radians(im["wcs"]["ra"]), math.radians(im["wcs"]["dec"])), False)
        cells.add(tuple(q) if q is not None else None)
    if len(cells) >= 2 and start >= 2:
        cls.append("images-under-different-parents")
    return Outcome(classes=cls,
                   nontrivial=ndef > 0 and len(case["images"]) >= 2, info={"defined_pixels": ndef, "tiles_with_data": tiles_with_data})


@st.composite
def strat_collection_e2e(draw, tier):
    imgs = []
    for i in range(draw(st.sampled_from([1, 2, 2, 2, 3]))):
        spec = draw(wcsgen.wcs_specs(projections=("TAN",), max_dec=80, min_scale_log=-1.0, max_scale_log=-0.5, allow_skew=False))
        spec["ratio"] = 1.0
        spec["crpix_mode"] = "half"
        if imgs and draw(st.integers(0, 3)) == 0:
            # overlapping the previous image
            spec["ra"] = (imgs[-1]["wcs"]["ra"] + draw(st.floats(-3, 3))) % 360
            spec["dec"] = max(-80.0, min(80.0, imgs[-1]["wcs"]["dec"] + draw(st.floats(-3, 3))))
        imgs.append({"size": [draw(st.integers(8, 64)), draw(st.integers(8, 64))], "wcs": spec, "gain": draw(st.sampled_from([1.0, 0.01, 4.0])), "offset": draw(st.sampled_from([0.0, 100.0, -300.0]))})
    return {"images": imgs, "start": draw(st.sampled_from([1, 2, 2, 3, 3, 4] if tier == "thorough" else [2, 3, 3]))}


def exec_chunk_e2e(case):
    from toasty import toast, samplers
    from toasty.pyramid import PyramidIO
    from .c11 import frac_xy, admissible

    depth = case["depth"]
    mode = case["mode"]
    with toasty_call("filter-factory"):
        img, cs = make_chunked(case)
    coordsys = cs_of(True)
    with fresh_dir("c07c-") as d:
        pio = PyramidIO(os.path.join(d, "chunks"), default_format="npy")
        order = case.get("order") or list(range(img.n_chunks))
        with toasty_call("sampling", "chunks sampled one after another"):
            if case.get("upfront"):
                # every chunk's filter and sampler are obtained first, then used one after another
                pairs = [(cs.filter(i % img.n_chunks), cs.sampler(i % img.n_chunks)) for i in order]
                for flt_, smp_ in pairs:
                    toast.sample_layer_filtered(pio, flt_, smp_, depth, coordsys=coordsys, parallel=1)
            else:
                for i in order:
                    i = i % img.n_chunks
                    toast.sample_layer_filtered(pio, cs.filter(i), cs.sampler(i), depth, coordsys=coordsys, parallel=1)
        got = read_layer(pio, depth, "npy")
    ny, nx = case["ny"], case["nx"]
    full = img._data
    nbad = 0
    for y in range(2**depth):
        for x in range(2**depth):
            p = (depth, x, y)
            if p not in got:
                raise Violation("holes", f"chunked sampling ({ny}x{nx} map, xs={case['xs']} ys={case['ys']}, {mode}) at depth {depth}: tile {p} was never produced")
            g = got[p]
            pc = rt.pixel_centres(*p, planetary=True)
            lon, lat = rt.vec_to_lonlat(pc)
            fx, fy = frac_xy("planet", lon, lat, nx, ny)
            cx = np.floor(np.asarray(fx, dtype=float)).astype(int) % nx
            cy = np.clip(np.floor(np.asarray(fy, dtype=float)).astype(int), 0, ny - 1)
            exp = full[cy, cx]
            gg = g[..., :3] if (mode == "RGB" and g.ndim == 3) else g
            if mode == "RGB":
                if g.ndim != 3 or g.shape[2] != 4:
                    raise Violation("holes", f"chunked RGB sampling produced a tile of shape {g.shape}")
                undefined = g[..., 3] == 0
                differ = (gg != exp).any(axis=2)
            elif mode == "F32":
                undefined = np.isnan(g)
                differ = gg != exp
            else:
                undefined = g == 0
                differ = gg != exp
            bad = undefined | differ
            if bad.any():
                # either-neighbour rule on cell boundaries
                for (i, j) in np.argwhere(bad):
                    ax = admissible(fx[i, j], nx, 1e-9, wrap=True)
                    ay = admissible(fy[i, j], ny, 1e-9, wrap=False)
                    ok = False
                    if not undefined[i, j]:
                        for r in ay:
                            for c in ax:
                                if np.array_equal(np.asarray(gg[i, j]), np.asarray(full[r, c])):
                                    ok = True
                    if not ok:
                        raise Violation(
                            "holes",
                            f"chunked sampling ({ny}x{nx} map, xs={case['xs']} ys={case['ys']}, {mode}) at depth {depth}: tile {p} pixel (row {i}, col {j}) is {'undefined' if undefined[i, j] else g[i, j].tolist()}, whole-map sampling gives {np.asarray(exp[i, j]).tolist()} (map cell row {sorted(ay)}, col {sorted(ax)})",
                        )
                    nbad += 1
    return Outcome(classes=["chunk-end-to-end", mode, f"depth{depth}", f"chunks{img.n_chunks}"] + (["samplers-obtained-upfront"] if case.get("upfront") else []), nontrivial=img.n_chunks >= 2, info={"boundary_pixels": nbad})


@st.composite
def strat_chunk_e2e(draw, tier):
    case = draw(chunk_cases(tier, small=True))
    case["depth"] = draw(st.sampled_from([0, 1, 1, 2]))
    n = (len(case["xs"]) - 1) * (len(case["ys"]) - 1)
    case["order"] = draw(st.permutations(list(range(n))))
    case["upfront"] = draw(st.booleans())
    return case


PARTS = [
    Part("box_direct", exec_box, strategy=strat_box, examples={"quick": 600, "thorough": 60000}, shards={"quick": 16, "thorough": 16},
         budget_s={"quick": 60, "thorough": 1200}, describe="latitude/longitude box filters x probe tiles"),
    Part("image_direct", exec_image, strategy=strat_image, examples={"quick": 700, "thorough": 40000}, shards={"quick": 16, "thorough": 16},
         budget_s={"quick": 70, "thorough": 1500}, describe="image-footprint filters x probe tiles aimed at the footprint's extremes"),
    Part("chunk_direct", exec_chunk, strategy=strat_chunk, examples={"quick": 400, "thorough": 30000}, shards={"quick": 16, "thorough": 16},
         budget_s={"quick": 60, "thorough": 1200}, describe="chunk filters of generated chunk grids x probe tiles"),
    Part("image_end_to_end", exec_image_e2e, strategy=strat_image_e2e, examples={"quick": 32, "thorough": 1200}, shards={"quick": 16, "thorough": 16},
         budget_s={"quick": 75, "thorough": 1500}, shrink=False, describe="sample_layer_filtered vs sample_layer for image footprints"),
    Part("collection_end_to_end", exec_collection_e2e, strategy=strat_collection_e2e, examples={"quick": 32, "thorough": 1200}, shards={"quick": 16, "thorough": 16},
         budget_s={"quick": 70, "thorough": 1200}, describe="tile_fits (TOAST) of 1-3 FITS images, per-image footprint filters + union filter for the downsampling, against the same pipeline without filters; every tile of every level"),
    Part("chunk_end_to_end", exec_chunk_e2e, strategy=strat_chunk_e2e, examples={"quick": 48, "thorough": 2000}, shards={"quick": 16, "thorough": 16},
         budget_s={"quick": 75, "thorough": 1500}, shrink=False, describe="all chunks sampled one after another vs whole-map sampling"),
]
