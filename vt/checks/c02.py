"""C02 — Cascade output: every parent tile is the 2x2 downsample of its children mosaic."""

import os

import numpy as np
from hypothesis import strategies as st

from ..core import Part, Outcome, Violation, HarnessError, toasty_call, fresh_dir
from .. import refpyramid as rp
from .. import gens, scen
from .. import cascade_common as cc
from ..simsched import SimWorld, SimUnsupported

PROPERTY_ID = "C02"
LEVEL = "exploration"
RULE = (
    "case = (start depth 1..3 (thorough 4), a sparse set of populated leaves (one leaf / full quartet / cluster / scattered), "
    "format and mode among fits:F32,F64; npy:F32,F64,U8,I16,I32,RGBA,RGB,F16x3; png:RGBA,RGB; jpg:RGB, leaf contents = small "
    "integers with generated undefined rectangles (NaN / alpha 0) incl. all-NaN leaf files, optional stale file at a parent "
    "position, optional tile filter accepting every populated tile and its ancestors, worker count k, schedule). Leaves are "
    "written through toasty; cascade_images runs serially (k=1), on Engine A (k>=2, generated schedule) or on real "
    "multiprocessing (part cascade_realmp). Oracle: RefCascade, level by level - parent = 2x2 block reduction of the 512x512 "
    "display-orientation mosaic (FITS rows reversed), float: mean of the non-NaN pixels, NaN iff all four; integer/colour: "
    "floor of the mean of the four stored values, transparent pixels contributing zeros; tile exists iff a child exists and the "
    "merged tile is not entirely undefined. Output files are decoded independently (numpy/astropy/PIL). Integer/RGBA exact; floats: "
    "each level rounded to the tile's precision, absolute tolerance 4*eps*(largest |leaf value|) with eps of F64/F32/F16; jpg +-6 grey levels on block-constant leaves. For k>=2 the same population is also "
    "cascaded serially and both results must be identical. Non-trivial: >=2 populated leaves in different quadrants of some "
    "parent together with a missing sibling or an undefined pixel."
)
ASSUMPTIONS = [
    "transparent RGBA pixels are canonical (alpha 0 => rgb 0), as toasty writes them; integer data non-negative",
    "a left-over parent file at a position with no children is outside the generated domain",
    "Engine A for k>=2 (callbacks do real file I/O and are atomic); real multiprocessing only sampled",
]


def all_positions_above(depth):
    for n in range(depth):
        for y in range(2**n):
            for x in range(2**n):
                yield (n, x, y)


def run_cascade(case, d, k, sched, real=False):
    from toasty.pyramid import PyramidIO
    from toasty.merge import cascade_images, averaging_merger

    fmt = case["format"]
    if case.get("dir") == "dotted":
        d = os.path.join(d, "m51.v2", "tiles")  # a directory name with a dot in it
        os.makedirs(d)
    pio = PyramidIO(d, default_format=fmt)
    leaves = {tuple(s["pos"]): cc.leaf_array(case["mode"], s, fmt) for s in case["leaves"]}
    with toasty_call("populate"):
        cc.populate(pio, case, leaves)
    pio_written = pio
    if case.get("open") == "guessed":
        # the pyramid is re-opened without naming a format, as `toasty cascade` does when --format is not given: the
        # documented behaviour is to take the format of the files that are there
        with toasty_call("cascade", "re-opening the pyramid without a default format"):
            pio = PyramidIO(d)
    kw = {}
    if case.get("filter"):
        F = gens.filter_fn(case["filter"])
        kw["tile_filter"] = lambda t: F(tuple(t.pos))
    world = None
    if k == 1 or real:
        with toasty_call("cascade", f"cascade_images(start={case['depth']}, parallel={k})"):
            cascade_images(pio, case["depth"], averaging_merger, parallel=k, **kw)
    else:
        world = SimWorld(sched)
        with scen.fs_yields(world):
            w, res = scen.run_sim(lambda: cascade_images(pio, case["depth"], averaging_merger, parallel=k, **kw), None, world=world)
        if res["status"] == "hang":
            raise Violation("cascade", f"parallel cascade never returns: {res['hang']}")
        if res["status"] == "raised":
            if isinstance(res["exc"], SimUnsupported):
                raise res["exc"]
            raise Violation("cascade", f"parallel cascade raised {type(res['exc']).__name__}: {res['exc']}; worker output: {w.stderr.getvalue()[-600:]}")
        if res["status"] != "returned":
            raise HarnessError("simulation inconclusive: " + str(res["status"]))
    return pio_written, leaves, world


def read_outputs(pio, case):
    from toasty.pyramid import Pos

    fmt = case["format"]
    out = {}
    for p in all_positions_above(case["depth"]):
        path = pio.tile_path(Pos(*p), makedirs=False)
        if os.path.exists(path):
            out[p] = cc.to_display(np.asarray(cc.decode_independently(path, fmt)), fmt)
    return out


def compare(case, got, ref, what, scale=1.0):
    mode, fmt = case["mode"], case["format"]
    for p in sorted(set(got) | set(ref)):
        if p not in got:
            raise Violation("existence", f"{what}: tile {p} is missing although it has children and its merged content is defined")
        if p not in ref:
            kids = [c for c in rp.children(p) if c in ref or c in set(tuple(s['pos']) for s in case['leaves'])]
            raise Violation("existence", f"{what}: tile {p} exists although {'its merged content is entirely undefined' if kids else 'none of its children exists'}")
        g, r = got[p], ref[p]
        if g.shape != r.shape:
            raise Violation("pixels", f"{what}: tile {p} has shape {g.shape}, expected {r.shape}")
        if fmt == "jpg":
            diff = np.abs(g.astype(int) - r.astype(int))
            if diff.max() > 6:
                yy, xx = np.argwhere(diff.max(axis=2) > 6)[0]
                raise Violation("pixels", f"{what}: jpg tile {p} pixel (row {yy}, col {xx}) = {g[yy, xx].tolist()}, expected about {r[yy, xx].tolist()}")
            continue
        if r.dtype.kind == "f":
            if g.dtype.kind != "f":
                raise Violation("pixels", f"{what}: tile {p} stored as {g.dtype}")
            tol = cc.tolerance(mode)
            gn, rn = np.isnan(g), np.isnan(r)
            if (gn != rn).any():
                yy, xx = np.argwhere((gn != rn).reshape(256, 256, -1).any(axis=2))[0]
                raise Violation("undefined-pixels", f"{what}: tile {p} pixel (row {yy}, col {xx}) is {g[yy, xx].tolist()}, expected {r[yy, xx].tolist()} (NaN only if all four source pixels are)")
            ok = np.isclose(g.astype(np.float64), r.astype(np.float64), rtol=2 * tol, atol=4 * tol * scale, equal_nan=True)
            if not ok.all():
                yy, xx = np.argwhere((~ok).reshape(256, 256, -1).any(axis=2))[0]
                raise Violation("pixels", f"{what}: tile {p} pixel (row {yy}, col {xx}) = {g[yy, xx].tolist()}, expected {r[yy, xx].tolist()}")
        else:
            if g.dtype.kind != r.dtype.kind or g.dtype.itemsize != r.dtype.itemsize:
                raise Violation("pixels", f"{what}: tile {p} stored as {g.dtype}, expected {r.dtype}")
            if not np.array_equal(g, r):
                ne = g != r
                ne2 = ne.any(axis=2) if ne.ndim == 3 else ne
                yy, xx = np.argwhere(ne2)[0]
                raise Violation("pixels", f"{what}: tile {p} pixel (row {yy}, col {xx}) = {g[yy, xx].tolist()}, expected {r[yy, xx].tolist()}; {int(ne2.sum())} pixels differ")


def classify(case, leaves):
    cls = [case["format"], case["mode"], f"depth{case['depth']}", f"k{case['k']}"]
    if case["format"] == "fits":
        cls.append("bottom-up")
    if case.get("open") == "guessed":
        cls.append("format-guessed-from-files")
    if case.get("dir") == "dotted":
        cls.append("dotted-directory-name")
    pos = set(leaves)
    nt = False
    for par in set(rp.parent(p) for p in pos):
        kids = [c for c in rp.children(par) if c in pos]
        if len(kids) == 1:
            cls.append("parent-with-one-child")
        if len(kids) >= 2:
            und = any(cc.undefined_mask(case["mode"], leaves[c]).any() for c in kids) if case["mode"] not in ("RGB",) else False
            if len(kids) < 4 or und:
                nt = True
    if any(s.get("kind") == "faint" for s in case["leaves"]):
        cls.append("faint-nearly-transparent-leaf")
    if any(s.get("kind") == "allnan" for s in case["leaves"]):
        cls.append("all-NaN-leaf")
    if case.get("stale"):
        cls.append("stale-parent-file")
    if case.get("filter"):
        cls.append("tile-filter")
    return sorted(set(cls)), nt


def exec_case(case, real=False):
    k = case["k"]
    what = f"{case['format']}/{case['mode']} depth {case['depth']} k={k}"
    with fresh_dir("c02-") as d:
        pio, leaves, world = run_cascade(case, d, k, case.get("sched"), real=real)
        got = read_outputs(pio, case)
        ref = cc.ref_cascade(case, leaves)
        scale = max([1.0] + [float(np.nanmax(np.abs(a))) for a in leaves.values() if a.dtype.kind == "f" and np.isfinite(a).any()])
        compare(case, got, ref, what, scale)
        lock = [f for _r, _d, fs in os.walk(d) for f in fs if f.endswith(".lock")]
        if k > 1:
            with fresh_dir("c02s-") as d2:
                pio2, _l, _w = run_cascade(case, d2, 1, None)
                got2 = read_outputs(pio2, case)
            if set(got2) != set(got):
                raise Violation("serial-vs-parallel", f"{what}: parallel cascade produced tiles {sorted(set(got) ^ set(got2))[:4]} differently from the serial cascade")
            for p in got:
                if not cc.arrays_equal(got[p], got2[p]):
                    raise Violation("serial-vs-parallel", f"{what}: tile {p} differs between the serial and the parallel cascade")
    cls, nt = classify(case, leaves)
    if world is not None:
        if len(set(pr.pid for pr in world.procs)) > 2:
            cls.append("multi-worker")
    return Outcome(classes=cls, nontrivial=nt, info={"tiles_checked": len(ref)})


def exec_real(case):
    return exec_case(case, real=True)


@st.composite
def strat_real(draw, tier):
    case = draw(cc.cascade_cases(tier, formats=["fits", "npy", "png"]))
    case["k"] = draw(st.sampled_from([2, 3, 4]))
    case.pop("sched", None)
    return case


PARTS = [
    Part("cascade", exec_case, strategy=lambda tier: cc.cascade_cases(tier), examples={"quick": 480, "thorough": 8000}, shards={"quick": 16, "thorough": 16},
         budget_s={"quick": 75, "thorough": 1500}, engine="serial for k=1, A for k>=2", describe="generated sparse pyramids x formats/modes x k x schedules"),
    Part("cascade_realmp", exec_real, strategy=strat_real, examples={"quick": 48, "thorough": 600}, shards={"quick": 8, "thorough": 16},
         budget_s={"quick": 60, "thorough": 1200}, shrink=False, engine="R (real multiprocessing)", describe="the same cases on real multiprocessing with 2-4 workers (validates Engine A's verdicts on samples)"),
]


def extra_coverage(cov_parts):
    return {"traces_validated_against_impl": cov_parts.get("cascade_realmp", {}).get("evaluations", 0)}
