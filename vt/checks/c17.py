"""C17 — The WTML and the returned data-set description match the files on disk."""

import builtins
import errno
import os
import re
import warnings
import xml.etree.ElementTree as ET

import numpy as np
from hypothesis import strategies as st

from ..core import Part, Outcome, Violation, HarnessError, toasty_call, fresh_dir
from .. import refpyramid as rp
from .. import gens

PROPERTY_ID = "C17"
LEVEL = "exploration"
RULE = (
    "(a) path schemes: for both naming schemes (L/Y/YX, LXY) and all formats, EVERY position to depth 6 and generated positions "
    "to depth 20: the Url template recorded by Builder, expanded with the WWT client's rule ({1}->level, {2}->x, {3}->y), equals "
    "the relative path at which PyramidIO places that tile (a tile is really written there for sampled positions), distinct "
    "positions give distinct paths, FileType = the extension. (b) workflows: tile-study CLI (png/jpg input of generated size, "
    "with or without --fits-wcs) +- cascade CLI, tile-allsky CLI (depth 0-2, generated projection) +- cascade, FITS auto-tiling "
    "toasty.tile_fits in TAN and TOAST mode, and the pipeline's process-todos with a harness image source (LXY scheme, tiles + cascade): "
    "index_rel.wtml is parsed with xml.etree, the template expanded, and (i) every tile file on disk is the expansion of exactly "
    "one position with level <= TileLevels, (ii) every position the reference model (RefStudy / all TOAST tiles / filtered leaves) "
    "says is populated has its file at the expanded path, (iii) FileType is the files' extension, (iv) TileLevels = deepest "
    "populated level. (c) histories of tile_fits calls on one output directory (fresh, repeat, repeat with override, different "
    "parallel): after EVERY call every attribute of the Place/ImageSet obtained from the returned Builder equals the "
    "corresponding attribute of index_rel.wtml on disk. Non-trivial: >=2 levels populated; history with a reuse step."
)
ASSUMPTIONS = ["WWT clients expand {1},{2},{3} (and nothing else) in the Url template", "SLURM_NPROCS=1 is set while tile_fits runs so that its internal cascade is serial (speed only)"]

TILE_RE = re.compile(r"\.(png|jpg|npy|fits)$")


def expand(url, pos):
    return url.replace("{1}", str(pos[0])).replace("{2}", str(pos[1])).replace("{3}", str(pos[2]))


def parse_wtml(path):
    tree = ET.parse(path)
    isets = [e for e in tree.iter() if e.tag == "ImageSet"]
    if len(isets) != 1:
        raise Violation("wtml", f"{len(isets)} ImageSet elements in {path}")
    places = [e for e in tree.iter() if e.tag == "Place"]
    return isets[0], (places[0] if places else None)


def tile_files(d):
    out = set()
    for r, _dirs, fs in os.walk(d):
        for f in fs:
            rel = os.path.relpath(os.path.join(r, f), d)
            if f in ("index_rel.wtml", "thumb.jpg", "index.wtml") or f.endswith(".lock"):
                continue
            if TILE_RE.search(f):
                out.add(rel)
    return out


def check_wtml_vs_disk(d, expected_positions, what, max_level_hint=None):
    iset, _place = parse_wtml(os.path.join(d, "index_rel.wtml"))
    url = iset.attrib.get("Url", "")
    ftype = iset.attrib.get("FileType", "")
    levels = int(iset.attrib.get("TileLevels", "0"))
    files = tile_files(d)
    # (iii)
    exts = set(os.path.splitext(f)[1] for f in files)
    if len(exts) != 1:
        raise Violation("file-type", f"{what}: tile files with extensions {sorted(exts)}")
    ext = exts.pop()
    if ftype != ext:
        raise Violation("file-type", f"{what}: WTML FileType {ftype!r}, tile files have extension {ext!r}")
    # (i) every file is the expansion of exactly one position
    maxl = max(levels, max_level_hint or 0, 1) + 1
    table = {}
    for p in rp.all_positions(min(maxl, 6)):
        e = os.path.normpath(expand(url, p))
        if e in table:
            raise Violation("distinct", f"{what}: positions {table[e]} and {p} expand to the same path {e!r} (Url {url!r})")
        table[e] = p
    on_disk = {}
    for f in files:
        p = table.get(os.path.normpath(f))
        if p is None:
            raise Violation("url-vs-disk", f"{what}: tile file {f!r} is not the expansion of any position by Url {url!r}")
        on_disk[p] = f
    # (ii)
    for p in expected_positions:
        e = os.path.normpath(expand(url, p))
        if e not in set(os.path.normpath(f) for f in files):
            raise Violation("url-vs-disk", f"{what}: position {p} is populated but its expanded Url {e!r} does not exist; files there: {sorted(files)[:6]}")
    unexpected = set(on_disk) - set(expected_positions)
    if unexpected:
        raise Violation("url-vs-disk", f"{what}: files exist for positions the model does not populate: {sorted(unexpected)[:5]}")
    # (iv)
    deepest = max(p[0] for p in on_disk) if on_disk else 0
    if levels != deepest:
        raise Violation("tile-levels", f"{what}: TileLevels = {levels}, the deepest populated layer is {deepest}")
    return levels, len(files)


# ------------------------------------------------------------------ (a) path schemes


def exec_scheme(case):
    from toasty.pyramid import PyramidIO, Pos
    from toasty.builder import Builder
    from toasty.image import Image

    scheme, fmt = case["scheme"], case["format"]
    with fresh_dir("c17a-") as d:
        base = os.path.join(d, "pyr")
        pio = PyramidIO(base, scheme=scheme, default_format=fmt)
        b = Builder(pio)
        url, ftype = b.imgset.url, b.imgset.file_type
        if ftype != "." + fmt:
            raise Violation("file-type", f"scheme {scheme}: FileType {ftype!r} for format {fmt}")
        if case.get("positions"):
            positions = [tuple(p) for p in case["positions"]]
        else:
            positions = list(rp.all_positions(case["depth"]))
        seen = {}
        for p in positions:
            with toasty_call("tile_path"):
                path = pio.tile_path(Pos(*p), makedirs=False)
            rel = os.path.normpath(os.path.relpath(path, base))
            exp = os.path.normpath(expand(url, p))
            if rel != exp:
                raise Violation("url-vs-path", f"scheme {scheme}, format {fmt}: tile {p} is stored at {rel!r} but the WTML template {url!r} expands to {exp!r}")
            if rel in seen and seen[rel] != p:
                raise Violation("distinct", f"scheme {scheme}: positions {seen[rel]} and {p} share the path {rel!r}")
            seen[rel] = p
        # really write a few tiles and find them at the expanded location
        arr = np.zeros((256, 256, 3), dtype=np.uint8) + 7 if fmt in ("png", "jpg") else np.ones((256, 256), dtype=np.float32)
        for p in positions[:: max(1, len(positions) // 5)][:6]:
            with toasty_call("write"):
                pio.write_image(Pos(*p), Image.from_array(arr))
            if not os.path.isfile(os.path.join(base, expand(url, p))):
                raise Violation("url-vs-path", f"scheme {scheme}: tile {p} written, but nothing exists at the expanded Url {expand(url, p)!r}")
            # the format given explicitly must land at the same template when it is the default
            p2 = pio.tile_path(Pos(*p), format=fmt, makedirs=False)
            if os.path.normpath(os.path.relpath(p2, base)) != os.path.normpath(expand(url, p)):
                raise Violation("url-vs-path", f"scheme {scheme}: explicit format path differs for {p}")
    return Outcome(classes=[scheme, fmt, "exhaustive" if not case.get("positions") else "deep"], nontrivial=True, count=len(positions))


def enum_schemes(tier):
    for scheme in ("L/Y/YX", "LXY"):
        for fmt in ("png", "jpg", "npy", "fits"):
            yield {"scheme": scheme, "format": fmt, "depth": 6}


@st.composite
def strat_scheme(draw, tier):
    return {"scheme": draw(st.sampled_from(["L/Y/YX", "LXY"])), "format": draw(st.sampled_from(["png", "jpg", "npy", "fits"])),
            "positions": draw(st.lists(gens.positions(20, 0), min_size=1, max_size=30))}


# ------------------------------------------------------------------ (b) workflows


def study_positions(w, h, cascaded):
    p2n = 256
    while p2n < max(w, h):
        p2n *= 2
    L = p2n.bit_length() - 9
    gx0, gy0 = (p2n - w) // 2, (p2n - h) // 2
    leaves = set((L, tx, ty) for tx in range(gx0 // 256, (gx0 + w - 1) // 256 + 1) for ty in range(gy0 // 256, (gy0 + h - 1) // 256 + 1))
    pos = set(leaves)
    if cascaded:
        for p in leaves:
            for lev in range(L):
                pos.add(rp.ancestor_at(p, lev))
    return pos, L


def make_rgb(w, h, salt):
    y, x = np.indices((h, w))
    return np.stack([(x * 3 + salt) % 256, (y * 5 + salt) % 256, (x + y) % 256], axis=-1).astype(np.uint8)


def run_cli(args):
    from toasty import cli

    with warnings.catch_warnings():
        warnings.simplefilter("ignore")
        cli.entrypoint(args)


def exec_workflow(case):
    from PIL import Image as PILImage

    wf = case["workflow"]
    old_env = os.environ.get("SLURM_NPROCS")
    os.environ["SLURM_NPROCS"] = "1"
    try:
        with fresh_dir("c17b-") as d:
            out = os.path.join(d, "out")
            cls = [wf]
            if wf == "tile-study":
                w, h = case["size"]
                ext = case["input_format"]
                inp = os.path.join(d, "input." + ext)
                PILImage.fromarray(make_rgb(w, h, case["salt"])).save(inp)
                args = ["tile-study", "--outdir", out, "--placeholder-thumbnail" if case["placeholder"] else "--name=x"]
                if case["fits_wcs"]:
                    from astropy.io import fits
                    from .. import wcsgen

                    hd = wcsgen.header_of(case["wcs"], w, h)
                    fits.writeto(os.path.join(d, "wcs.fits"), np.zeros((h, w), dtype=np.float32), header=hd)
                    args += ["--fits-wcs", os.path.join(d, "wcs.fits")]
                args.append(inp)
                with toasty_call("workflow", "toasty " + " ".join(args[:1])):
                    run_cli(args)
                    pos, L = study_positions(w, h, case["cascade"])
                    if case["cascade"] and L >= 1:
                        run_cli(["cascade", "--start", str(L), "--parallelism", "1", out])
                what = f"tile-study {w}x{h} .{ext}{' + cascade' if case['cascade'] else ''}"
                if L == 0:
                    pos = {(0, 0, 0)}
                levels, nfiles = check_wtml_vs_disk(out, pos, what, L)
                cls += [ext, f"levels{L}", "cascaded" if case["cascade"] else "base-only"]
                nt = len(set(p[0] for p in pos)) >= 2
            elif wf == "tile-allsky":
                depth = case["depth"]
                inp = os.path.join(d, "map.png")
                PILImage.fromarray(make_rgb(64, 32, case["salt"])).save(inp)
                args = ["tile-allsky", "--outdir", out, "--projection", case["projection"], "--parallelism", "1", "--placeholder-thumbnail", inp, str(depth)]
                with toasty_call("workflow", "toasty tile-allsky"):
                    run_cli(args)
                    if case["cascade"] and depth >= 1:
                        run_cli(["cascade", "--start", str(depth), "--parallelism", "1", out])
                pos = set(p for p in rp.all_positions(depth) if (case["cascade"] or p[0] == depth))
                what = f"tile-allsky depth {depth} {case['projection']}{' + cascade' if case['cascade'] else ''}"
                check_wtml_vs_disk(out, pos, what, depth)
                cls += [f"depth{depth}", case["projection"], "cascaded" if case["cascade"] else "base-only"]
                nt = case["cascade"] and depth >= 1
            elif wf in ("tile_fits_tan", "tile_fits_toast"):
                import toasty
                from astropy.io import fits
                from .. import wcsgen

                w, h = case["size"]
                spec = dict(case["wcs"])
                data = (np.arange(w * h, dtype=np.float32).reshape(h, w) % 97) + 1
                fpath = os.path.join(d, "img.fits")
                fits.writeto(fpath, data, header=wcsgen.header_of(spec, w, h))
                inputs = [fpath]
                kw = {}
                start = case.get("start")
                if wf == "tile_fits_toast":
                    kw = {"tiling_method": toasty.TilingMethod.TOAST}
                    if case.get("second"):
                        # a collection of two images with different pixel scales, in either order
                        w2, h2 = case["second"]["size"]
                        f2 = os.path.join(d, "img2.fits")
                        fits.writeto(f2, (np.arange(w2 * h2, dtype=np.float32).reshape(h2, w2) % 89) + 1, header=wcsgen.header_of(case["second"]["wcs"], w2, h2))
                        inputs = [fpath, f2] if case["second"]["last"] else [f2, fpath]
                    if case.get("auto_start"):
                        start = None  # the base level is chosen from the images' pixel scales
                    else:
                        kw["start"] = start
                else:
                    kw = {"tiling_method": toasty.TilingMethod.TAN}
                with toasty_call("workflow", wf):
                    with warnings.catch_warnings():
                        warnings.simplefilter("ignore")
                        odir, bld = toasty.tile_fits(inputs, out_dir=out, parallel=1, **kw)
                if wf == "tile_fits_tan":
                    pos, L = study_positions(w, h, True)
                    check_wtml_vs_disk(out, pos, f"tile_fits TAN {w}x{h}", L)
                    nt = L >= 1
                else:
                    # populated = whatever the filtered sampling produced; both directions are still checked
                    files = tile_files(out)
                    iset, _pl = parse_wtml(os.path.join(out, "index_rel.wtml"))
                    url = iset.attrib["Url"]
                    pos = set()
                    norm = set(os.path.normpath(f) for f in files)
                    if start is None:
                        # the level toasty chose is whatever the deepest layer on disk is
                        start = max([int(f.replace("\\", "/").split("/")[0]) for f in files if f.replace("\\", "/").split("/")[0].isdigit()] + [0])
                    for p in rp.all_positions(min(start, 6)):
                        if os.path.normpath(expand(url, p)) in norm:
                            pos.add(p)
                    whatt = f"tile_fits TOAST of {len(inputs)} image(s), start={'auto' if case.get('auto_start') else start}"
                    if not any(p[0] == start for p in pos):
                        raise Violation("url-vs-disk", f"{whatt}: no tile of the deepest level {start} is found through the Url template {url!r}; files: {sorted(files)[:5]}")
                    check_wtml_vs_disk(out, pos, whatt, start)
                    nt = True
                    if len(inputs) > 1:
                        cls.append("two-images-of-different-scale")
                    if case.get("auto_start"):
                        cls.append("base-level-chosen-by-toasty")
                compare_builder_with_wtml(bld, out, wf)
                cls += [wf]
            elif wf == "pipeline":
                import yaml
                import toasty.pipeline as tp
                from toasty.image import ImageLoader
                from toasty.merge import averaging_merger, cascade_images

                if "vt-harness-c17" not in tp.IMAGE_SOURCE_CLASS_LOADERS:

                    class Src(tp.ImageSource):
                        @classmethod
                        def get_config_key(cls):
                            return "vt_harness_c17"

                        @classmethod
                        def deserialize(cls, data):
                            return cls()

                        def query_candidates(self):
                            return iter(())

                        def fetch_candidate(self, unique_id, cand_data_stream, cachedir):
                            pass

                        def process(self, unique_id, cand_data_stream, cachedir, builder):
                            img = ImageLoader().load_path(os.path.join(cachedir, "image.png"))
                            builder.tile_base_as_study(img)
                            builder.default_tiled_study_astrometry()
                            builder.make_placeholder_thumbnail()
                            builder.set_name(unique_id)
                            cascade_images(builder.pio, builder.imgset.tile_levels, averaging_merger, parallel=1)

                    tp.IMAGE_SOURCE_CLASS_LOADERS["vt-harness-c17"] = lambda: Src
                work = os.path.join(d, "work")
                store = os.path.join(d, "store")
                os.makedirs(os.path.join(work, "candidates"))
                os.makedirs(store)
                with open(os.path.join(work, "toasty-store-config.yaml"), "w") as f:
                    yaml.safe_dump({"_type": "local", "path": store}, f)
                with open(os.path.join(work, "toasty-pipeline-config.yaml"), "w") as f:
                    yaml.safe_dump({"source_type": "vt-harness-c17", "vt_harness_c17": {}}, f)
                w, h = case["size"]
                uid = "img_%d" % case["salt"]
                os.makedirs(os.path.join(work, "cache_todo", uid))
                PILImage.fromarray(make_rgb(w, h, case["salt"])).save(os.path.join(work, "cache_todo", uid, "image.png"))
                open(os.path.join(work, "candidates", uid), "wb").close()
                if case.get("process_fault"):
                    # the image source's processing fails part-way (the k-th tile cannot be written): the job fails, and if an
                    # index_rel.wtml is left in the output directory all the same, it has to describe what is there
                    import errno
                    from toasty.pyramid import PyramidIO

                    cnt = {"n": 0}
                    orig_write = PyramidIO.write_image

                    def write_image(self, *a, **k):
                        cnt["n"] += 1
                        if cnt["n"] == case["process_fault"]:
                            raise OSError(errno.ENOSPC, "No space left on device (injected by the harness)")
                        return orig_write(self, *a, **k)

                    PyramidIO.write_image = write_image
                    failed = False
                    try:
                        tp.PipelineManager(work).process_todos()
                    except Exception:  # noqa
                        failed = True
                    finally:
                        PyramidIO.write_image = orig_write
                    if failed:
                        cls.append("processing-failed-part-way")
                        for root, _dirs, files_ in os.walk(work):
                            if "index_rel.wtml" in files_:
                                tf = tile_files(root)
                                iset, _pl = parse_wtml(os.path.join(root, "index_rel.wtml"))
                                lev = int(iset.attrib.get("TileLevels", "0"))
                                url = iset.attrib.get("Url", "")
                                table = set(os.path.normpath(expand(url, p)) for p in rp.all_positions(min(max(lev, 3), 5)))
                                stray = [f for f in tf if os.path.normpath(f) not in table]
                                deepest = max([int(os.path.basename(f)[1:].split("X")[0]) for f in tf if os.path.basename(f).startswith("L") and "X" in f] + [0])
                                if stray or lev != deepest:
                                    raise Violation("tile-levels", f"pipeline process-todos failed part-way (tile write #{case['process_fault']}) and left an index_rel.wtml with TileLevels={lev}, Url {url!r} next to tiles whose deepest level is {deepest}; files not described by it: {sorted(stray)[:4]}")
                        return Outcome(classes=cls, nontrivial=True)
                with toasty_call("workflow", "pipeline process-todos"):
                    tp.PipelineManager(work).process_todos()
                pos, L = study_positions(w, h, True)
                outd = os.path.join(work, "processed", uid)
                check_wtml_vs_disk(outd, pos, f"pipeline process-todos of a {w}x{h} image (LXY scheme)", L)
                iset, _pl = parse_wtml(os.path.join(outd, "index_rel.wtml"))
                if "/" in iset.attrib.get("Url", ""):
                    raise Violation("url-vs-disk", f"pipeline: LXY scheme expected, Url is {iset.attrib.get('Url')!r}")
                cls += [f"levels{L}", "LXY"]
                nt = L >= 1
            elif wf == "tile_fits_tan_multi":
                import toasty
                from .. import mtgen

                ind = os.path.join(d, "in")
                os.makedirs(ind)
                paths, exp, box = mtgen.write_inputs(case["mosaic"], ind)
                with toasty_call("workflow", wf):
                    with warnings.catch_warnings():
                        warnings.simplefilter("ignore")
                        odir, bld = toasty.tile_fits(paths, out_dir=out, parallel=1, tiling_method=toasty.TilingMethod.TAN)
                hh, ww = exp.shape
                canvas, L = mtgen.expected_canvas(exp)
                # populated leaves = tiles holding a defined pixel; parents by cascade
                pos = set()
                for ty in range(2**L):
                    for tx in range(2**L):
                        if not np.isnan(canvas[256 * ty : 256 * ty + 256, 256 * tx : 256 * tx + 256]).all():
                            pos.add((L, tx, ty))
                for p in list(pos):
                    for lev in range(L):
                        pos.add(rp.ancestor_at(p, lev))
                check_wtml_vs_disk(out, pos, f"tile_fits TAN of {len(paths)} inputs forming a {ww}x{hh} mosaic", L)
                compare_builder_with_wtml(bld, out, wf)
                nt = L >= 1
            elif wf == "tile-multi-tan-cli":
                from .. import mtgen

                ind = os.path.join(d, "in")
                os.makedirs(ind)
                paths, exp, box = mtgen.write_inputs(case["mosaic"], ind)
                with toasty_call("workflow", "toasty tile-multi-tan"):
                    run_cli(["tile-multi-tan", "--parallelism", "1", "--outdir", out] + list(paths))
                    canvas, L = mtgen.expected_canvas(exp)
                    if case["cascade"] and L >= 1:
                        run_cli(["cascade", "--start", str(L), "--parallelism", "1", out])
                hh, ww = exp.shape
                pos = set()
                for ty in range(2**L):
                    for tx in range(2**L):
                        if not np.isnan(canvas[256 * ty : 256 * ty + 256, 256 * tx : 256 * tx + 256]).all():
                            pos.add((L, tx, ty))
                if case["cascade"]:
                    for p in list(pos):
                        for lev in range(L):
                            pos.add(rp.ancestor_at(p, lev))
                check_wtml_vs_disk(out, pos, f"tile-multi-tan CLI of {len(paths)} inputs forming a {ww}x{hh} mosaic{' + cascade' if case['cascade'] else ''}", L)
                cls += [f"levels{L}", "cascaded" if case["cascade"] else "base-only"]
                nt = L >= 1 and case["cascade"]
            elif wf == "tile-wwtl":
                from wwt_data_formats.filecabinet import FileCabinetWriter

                w, h = case["size"]
                tests = os.path.join(os.path.dirname(__import__("toasty").__file__), "tests")
                src = os.path.join(tests, "layercontainer.wwtxml")
                if not os.path.isfile(src):
                    raise HarnessError("the repository's sample layer file is missing: " + src)
                fw = FileCabinetWriter()
                with open(src, "rb") as f:
                    fw.add_file_with_data("55cb0cce-c44a-4a44-a509-ea66fce643a5.wwtxml", f.read())
                import io

                bio = io.BytesIO()
                PILImage.fromarray(make_rgb(w, h, case["salt"])).save(bio, format="JPEG")
                fw.add_file_with_data("55cb0cce-c44a-4a44-a509-ea66fce643a5\\7ecb6411-e4ee-4dfa-90ef-77d6f486c7d2.jpg", bio.getvalue())
                wwtl = os.path.join(d, "image.wwtl")
                with open(wwtl, "wb") as f:
                    fw.emit(f)
                args = ["tile-wwtl", "--outdir", out]
                if case["placeholder"]:
                    args.append("--placeholder-thumbnail")
                args.append(wwtl)
                with toasty_call("workflow", "toasty tile-wwtl"):
                    run_cli(args)
                    pos, L = study_positions(w, h, case["cascade"])
                    if case["cascade"] and L >= 1:
                        run_cli(["cascade", "--start", str(L), "--parallelism", "1", out])
                if L == 0:
                    pos = {(0, 0, 0)}
                check_wtml_vs_disk(out, pos, f"tile-wwtl of a {w}x{h} layer image{' + cascade' if case['cascade'] else ''}", L)
                cls += [f"levels{L}", "cascaded" if case["cascade"] else "base-only"]
                nt = len(set(p[0] for p in pos)) >= 2
            else:
                raise HarnessError("unknown workflow " + wf)
    finally:
        if old_env is None:
            os.environ.pop("SLURM_NPROCS", None)
        else:
            os.environ["SLURM_NPROCS"] = old_env
    return Outcome(classes=cls, nontrivial=bool(nt))


def xml_attrs(el):
    out = {}
    for e in el.iter():
        if e.tag in ("ImageSet", "Place"):
            for k, v in e.attrib.items():
                out[f"{e.tag}.{k}"] = v
    return out


def compare_builder_with_wtml(bld, out, what, add_place=True):
    if bld is None:
        raise Violation("returned-description", f"{what}: no Builder was returned")
    with toasty_call("returned-description", what):
        got = xml_attrs(bld.create_wtml_folder(add_place_for_toast=add_place).to_xml())
        # the image-set description itself, not only what a re-serialisation of the builder picks up
        direct = {k: v for k, v in xml_attrs(bld.imgset.to_xml()).items() if k.startswith("ImageSet.")}
    disk = xml_attrs(ET.parse(os.path.join(out, "index_rel.wtml")).getroot())
    for key in ("ImageSet.TileLevels", "ImageSet.Url", "ImageSet.FileType", "ImageSet.Projection", "ImageSet.BaseDegreesPerTile", "ImageSet.BaseTileLevel"):
        a, b = direct.get(key), disk.get(key)
        if a == b:
            continue
        try:
            if a is not None and b is not None and abs(float(a) - float(b)) <= 1e-9 * max(abs(float(a)), abs(float(b))):
                continue
        except ValueError:
            pass
        raise Violation("returned-description", f"{what}: the returned Builder's image set has {key}={a!r}, index_rel.wtml on disk has {b!r}")
    for key in sorted(set(got) | set(disk)):
        a, b = got.get(key), disk.get(key)
        if a == b:
            continue
        try:
            if a is not None and b is not None and abs(float(a) - float(b)) <= 1e-9 * max(abs(float(a)), abs(float(b))):
                continue
        except ValueError:
            pass
        raise Violation("returned-description", f"{what}: the returned description has {key}={a!r}, index_rel.wtml on disk has {b!r}")


@st.composite
def strat_workflow(draw, tier):
    from .. import wcsgen

    wf = draw(st.sampled_from(["tile-study", "tile-study", "tile-allsky", "tile_fits_tan", "tile_fits_toast", "tile_fits_tan_multi", "pipeline", "tile-multi-tan-cli", "tile-wwtl"]))
    case = {"workflow": wf, "salt": draw(st.integers(0, 50))}
    # (images of a few pixels cannot be thumbnailed by PIL; that is not this property's subject)
    small = st.one_of(st.integers(48, 700), st.sampled_from([256, 257, 512, 513, 300]))
    if wf == "tile-study":
        case.update(size=[draw(small), draw(small)], input_format=draw(st.sampled_from(["png", "jpg"])), cascade=draw(st.booleans()),
                    placeholder=draw(st.booleans()), fits_wcs=draw(st.booleans()))
        if case["fits_wcs"]:
            case["wcs"] = draw(wcsgen.wcs_specs(projections=("TAN",), max_dec=80, allow_skew=False))
            case["wcs"]["ratio"] = 1.0  # WWT cannot express non-square pixels (documented error)
    elif wf == "tile-allsky":
        case.update(depth=draw(st.integers(0, 2)), cascade=draw(st.booleans()),
                    projection=draw(st.sampled_from(["plate-carree", "plate-carree-galactic", "plate-carree-ecliptic", "plate-carree-planet", "plate-carree-planet-zeroleft", "plate-carree-planet-zeroright", "plate-carree-panorama"])))
    elif wf == "pipeline":
        case.update(size=[draw(small), draw(small)])
        if draw(st.booleans()):
            case["process_fault"] = draw(st.sampled_from([1, 1, 2, 3, 5, 8]))
    elif wf == "tile-wwtl":
        case.update(size=[draw(small), draw(small)], cascade=draw(st.booleans()), placeholder=draw(st.booleans()))
    elif wf == "tile-multi-tan-cli":
        from .. import mtgen

        m = draw(mtgen.mosaic_cases(tier, max_size=700, max_inputs=4))
        m["k"] = 1
        case["mosaic"] = m
        case["cascade"] = draw(st.booleans())
    elif wf == "tile_fits_tan_multi":
        from .. import mtgen

        m = draw(mtgen.mosaic_cases(tier, max_size=700, max_inputs=4))
        m["k"] = 1
        m["rot"] = draw(st.sampled_from([0.0, 0.0, 36.87]))
        case["mosaic"] = m
    elif wf == "tile_fits_tan":
        case.update(size=[draw(st.integers(20, 600)), draw(st.integers(20, 600))])
        spec = draw(wcsgen.wcs_specs(projections=("TAN",), max_dec=80, min_scale_log=-4.0, max_scale_log=-3.0, allow_skew=False))
        spec["crpix_mode"] = "half"
        spec["ratio"] = 1.0
        case["wcs"] = spec
    else:
        case.update(size=[draw(st.integers(20, 120)), draw(st.integers(20, 120))], start=draw(st.integers(1, 3)))
        spec = draw(wcsgen.wcs_specs(projections=("TAN",), max_dec=70, min_scale_log=-1.2, max_scale_log=-0.6, allow_skew=False))
        spec["crpix_mode"] = "half"
        spec["ratio"] = 1.0
        case["wcs"] = spec
        if draw(st.booleans()):
            case["auto_start"] = True
            # keep the automatically chosen level small: >= 0.08 deg / pixel
            spec["scale"] = max(spec["scale"], 0.08)
        if draw(st.booleans()):
            s2 = draw(wcsgen.wcs_specs(projections=("TAN",), max_dec=70, min_scale_log=-1.1, max_scale_log=-0.2, allow_skew=False))
            s2["crpix_mode"] = "half"
            s2["ratio"] = 1.0
            case["second"] = {"size": [draw(st.integers(20, 80)), draw(st.integers(20, 80))], "wcs": s2, "last": draw(st.booleans())}
    return case


# ------------------------------------------------------------------ (c) tile_fits histories


class Interrupted(Exception):
    pass


def exec_history(case):
    """histories of tile_fits calls on ONE output directory. Steps: fresh / repeat / override / parallel2 /
    interrupted (the run dies in the cascade, after the base layer was written and before index_rel.wtml);
    the input image may change size between calls (the same path is re-written)."""
    import toasty
    from toasty import builder as tbuilder
    from astropy.io import fits
    from .. import wcsgen

    old_env = os.environ.get("SLURM_NPROCS")
    os.environ["SLURM_NPROCS"] = "1"
    reuse = False
    changed_input = False
    no_place = bool(case.get("no_place"))
    faults_reported = faults_survived = 0
    orig_open = builtins.open
    try:
        with fresh_dir("c17c-") as d:
            fpath = os.path.join(d, "img.fits")
            out = os.path.join(d, "out") if case["explicit_out"] else None
            modes = case.get("modes") or [case["mode"]] * len(case["steps"])
            sizes = case.get("sizes") or [case["size"]] * len(case["steps"])
            content = None  # (mode, size) of the run that produced what is in the directory now
            complete = False
            for si, step in enumerate(case["steps"]):
                mode_i = modes[si] if out is not None else case["mode"]
                w, h = sizes[si]
                data = (np.arange(w * h, dtype=np.float32).reshape(h, w) % 97) + 1
                fits.writeto(fpath, data, header=wcsgen.header_of(case["wcs"], w, h), overwrite=True)
                kw = {"tiling_method": toasty.TilingMethod.TOAST, "start": case["start"]} if mode_i == "toast" else {"tiling_method": toasty.TilingMethod.TAN}
                what = f"tile_fits ({mode_i}, {w}x{h}) call {si} ({step}) of history {list(zip(case['steps'], modes, [tuple(z) for z in sizes]))}"
                override = step in ("override", "interrupted-override")
                interrupted = step.startswith("interrupted")
                par = 2 if step == "parallel2" else 1
                will_tile = override or content is None
                orig_cascade = tbuilder.Builder.cascade
                if interrupted:
                    def boom(self, **kw_):
                        raise Interrupted("the run is interrupted in the cascade")

                    tbuilder.Builder.cascade = boom
                read_fault = step == "repeat-readfault"
                fired = []
                if read_fault:
                    # one transient I/O error while the existing index is opened for reading: the call may fail, but if it
                    # returns, what it returns must still describe the directory
                    def faulty_open(file, mode="r", *a_, **k_):
                        if not fired and isinstance(file, (str, os.PathLike)) and str(file).endswith("index_rel.wtml") and "w" not in mode and "a" not in mode and "+" not in mode:
                            fired.append(1)
                            raise OSError(errno.EIO, "injected transient I/O error", str(file))
                        return orig_open(file, mode, *a_, **k_)

                    builtins.open = faulty_open
                try:
                    with warnings.catch_warnings():
                        warnings.simplefilter("ignore")
                        if no_place:
                            from toasty import collection, fits_tiler

                            coll = collection.load([fpath], hdu_index=None, wcs_key=" ", blankval=None)
                            tiler = fits_tiler.FitsTiler(coll, out_dir=out, tiling_method=kw["tiling_method"], add_place_for_toast=False)
                            tiler.tile(parallel=par, override=override, **{k_: v_ for k_, v_ in kw.items() if k_ != "tiling_method"})
                            odir, bld = tiler.out_dir, tiler.builder
                        else:
                            odir, bld = toasty.tile_fits([fpath], out_dir=out, override=override, parallel=par, **kw)
                except Interrupted:
                    content = (mode_i, (w, h))
                    complete = False
                    continue
                except Exception as e:  # noqa
                    if read_fault and fired:
                        faults_reported += 1
                        continue  # the error reached the caller; the directory is untouched
                    raise Violation("workflow", f"{what} raised {type(e).__name__}: {e}")
                finally:
                    tbuilder.Builder.cascade = orig_cascade
                    builtins.open = orig_open
                if read_fault and fired:
                    faults_survived += 1
                if will_tile:
                    if content is not None and content[1] != (w, h):
                        changed_input = True
                    content = (mode_i, (w, h))
                    complete = True
                else:
                    reuse = True
                if not os.path.isfile(os.path.join(odir, "index_rel.wtml")):
                    raise Violation("wtml", f"{what}: no index_rel.wtml in {odir}")
                compare_builder_with_wtml(bld, odir, what, add_place=not no_place)
                # the directory tree must be exactly what the WTML describes (no layers left over from earlier runs)
                cm, (cw, ch) = content
                if cm == "tan":
                    pos, L = study_positions(cw, ch, True)
                    check_wtml_vs_disk(odir, pos, what, L)
                else:
                    files = tile_files(odir)
                    iset, _pl = parse_wtml(os.path.join(odir, "index_rel.wtml"))
                    url = iset.attrib["Url"]
                    norm = set(os.path.normpath(f) for f in files)
                    pos = set(p for p in rp.all_positions(min(6, case["start"] + 3)) if os.path.normpath(expand(url, p)) in norm)
                    check_wtml_vs_disk(odir, pos, what, case["start"])
    finally:
        if old_env is None:
            os.environ.pop("SLURM_NPROCS", None)
        else:
            os.environ["SLURM_NPROCS"] = old_env
    cls = [case["mode"], "reuse-step" if reuse else "no-reuse", "default-outdir" if not case["explicit_out"] else "explicit-outdir"]
    if changed_input:
        cls.append("input-changed-between-calls")
    if any(s_.startswith("interrupted") for s_ in case["steps"]):
        cls.append("interrupted-run")
    if no_place:
        cls.append("FitsTiler-without-place")
    if faults_reported:
        cls.append("read-fault-reported")
    if faults_survived:
        cls.append("read-fault-survived")
    return Outcome(classes=cls, nontrivial=reuse or changed_input, count=len(case["steps"]))


@st.composite
def strat_history(draw, tier):
    from .. import wcsgen

    mode = draw(st.sampled_from(["tan", "tan", "toast"]))
    steps = [draw(st.sampled_from(["fresh", "fresh", "interrupted"]))]
    for _ in range(draw(st.integers(1, 4))):
        if steps[-1].startswith("interrupted"):
            # what an interrupted run leaves behind can only be overridden
            steps.append(draw(st.sampled_from(["override", "override", "interrupted-override"])))
        else:
            steps.append(draw(st.sampled_from(["repeat", "repeat", "override", "override", "parallel2", "interrupted-override", "repeat-readfault"])))
    if steps[-1].startswith("interrupted"):
        steps.append("override")
    if mode == "tan":
        spec = draw(wcsgen.wcs_specs(projections=("TAN",), max_dec=80, min_scale_log=-4.0, max_scale_log=-3.0, allow_skew=False))
        big = [draw(st.integers(260, 700)), draw(st.integers(260, 700))]
        small = [draw(st.integers(20, 250)), draw(st.integers(20, 250))]
    else:
        spec = draw(wcsgen.wcs_specs(projections=("TAN",), max_dec=70, min_scale_log=-1.2, max_scale_log=-0.6, allow_skew=False))
        big = [draw(st.integers(40, 80)), draw(st.integers(40, 80))]
        small = [draw(st.integers(20, 39)), draw(st.integers(20, 39))]
    spec["crpix_mode"] = "half"
    spec["ratio"] = 1.0
    # the tiling mode and the input image may change between calls on the same (explicit) output directory
    modes = [mode] + [draw(st.sampled_from([mode, mode, "tan", "toast"])) for _ in steps[1:]]
    if mode == "tan" and "toast" in modes:
        spec["scale"] = 0.2
        big = [min(big[0], 80), min(big[1], 80)]
        small = [min(small[0], 39), min(small[1], 39)]
    sizes = [draw(st.sampled_from([big, big, small])) for _ in steps]
    explicit = draw(st.booleans())
    if not explicit:
        modes = [mode] * len(steps)
    return {"mode": mode, "modes": modes, "steps": steps, "sizes": sizes, "wcs": spec, "size": sizes[0], "start": draw(st.integers(1, 2)), "explicit_out": explicit,
            "no_place": draw(st.integers(0, 2)) == 0}


PARTS = [
    Part("path_schemes_all", exec_scheme, enumerate=enum_schemes, shards={"quick": 8, "thorough": 8}, describe="both schemes x four formats x every position to depth 6"),
    Part("path_schemes_deep", exec_scheme, strategy=strat_scheme, examples={"quick": 300, "thorough": 20000}, shards={"quick": 4, "thorough": 16}, describe="generated positions to depth 20"),
    Part("workflows", exec_workflow, strategy=strat_workflow, examples={"quick": 192, "thorough": 3000}, shards={"quick": 16, "thorough": 16},
         budget_s={"quick": 80, "thorough": 1500}, describe="tile-study / tile-allsky / tile-multi-tan / tile-wwtl (+cascade) CLI, tile_fits TAN and TOAST, pipeline: WTML vs directory tree, returned Builder vs WTML"),
    Part("tile_fits_histories", exec_history, strategy=strat_history, examples={"quick": 160, "thorough": 3000}, shards={"quick": 16, "thorough": 16},
         budget_s={"quick": 80, "thorough": 1500}, describe="histories of tile_fits calls on one output directory (fresh / repeat / override / different parallel)"),
]
PARTS[0].exhaustive_tiers = {"quick", "thorough"}
