"""C09 — Tiling images on a common TAN grid equals tiling the assembled mosaic."""

import os
import warnings

import numpy as np
from hypothesis import strategies as st

from ..core import Part, Outcome, Violation, HarnessError, toasty_call, fresh_dir
from .. import mtgen, scen
from ..simsched import SimWorld, SimUnsupported

PROPERTY_ID = "C09"
LEVEL = "exploration"
RULE = (
    "case = (mosaic of W x H <= 900 px with distinct pixel values on a TAN grid: CRVAL, scale, common rotation incl. exact "
    "multiples of 90 degrees; 1-6 sub-rectangles, overlapping allowed, NaN borders of generated width, the union's bounding box "
    "being the mosaic; the whole collection stored bottom-up or top-down; a generated input order; tile format fits or npy; "
    "worker count k). The inputs are written as FITS files and tiled with MultiTanProcessor (serial, Engine A for k>=2 with a "
    "generated schedule, real multiprocessing in part realmp). Oracle: (i) the deepest-level tiles, decoded independently and "
    "re-assembled in display orientation, equal the bounding-box mosaic pasted at the centred offset (RefStudy) where a defined "
    "pixel always beats NaN; tiles exist exactly where they hold a defined pixel; (ii) every attribute of the ImageSet / Place "
    "computed for the collection equals (rtol 1e-9) the one computed by the same code for the assembled mosaic written as ONE "
    "FITS file; (iii) input order, parity and k cannot matter since all are compared with the same expected canvas; (iv) no "
    "*.lock file remains. Non-trivial: >=2 inputs sharing at least one tile."
)
ASSUMPTIONS = ["overlapping inputs agree (they are cut from one mosaic)", "Engine A for k>=2: tile updates are atomic steps (the lock itself is C10's subject)"]


def imgset_attrs(builder):
    out = {}
    x = builder.create_wtml_folder().to_xml()
    for el in x.iter():
        if el.tag in ("ImageSet", "Place"):
            for k, v in el.attrib.items():
                if k in ("Name", "Url", "ThumbnailUrl", "Thumbnail"):
                    continue
                out[f"{el.tag}.{k}"] = v
    return out


def run_tiling(case, d, paths, k, sched, real=False):
    from toasty import collection, multi_tan
    from toasty.builder import Builder
    from toasty.pyramid import PyramidIO

    pio = PyramidIO(os.path.join(d, "out%d" % len(os.listdir(d))), default_format=case["tile_format"])
    bld = Builder(pio)
    with warnings.catch_warnings():
        warnings.simplefilter("ignore")
        coll = collection.load(paths)
        proc = multi_tan.MultiTanProcessor(coll)
        with toasty_call("pixelization"):
            proc.compute_global_pixelization(bld)
        world = None
        if k == 1 or real:
            with toasty_call("tile", f"MultiTanProcessor.tile(parallel={k})"):
                proc.tile(pio, parallel=k)
        else:
            world = SimWorld(sched)
            with scen.critical_section_yields(world):
                w, res = scen.run_sim(lambda: proc.tile(pio, parallel=k), None, world=world)
            if res["status"] == "hang":
                raise Violation("tile", f"parallel tiling never returns: {res['hang']}")
            if res["status"] == "raised":
                if isinstance(res["exc"], SimUnsupported):
                    raise res["exc"]
                raise Violation("tile", f"parallel tiling raised {type(res['exc']).__name__}: {res['exc']}; {w.stderr.getvalue()[-600:]}")
            if res["status"] != "returned":
                raise HarnessError("simulation inconclusive")
    return pio, bld, proc, world


def exec_case(case, real=False):
    k = case["k"]
    what = f"{len(case['rects'])} inputs, {'bottom-up' if case['bottom_up'] else 'top-down'}, order {case['order']}, tiles {case['tile_format']}, rot {case['rot']}, k={k}"
    with fresh_dir("c09-") as d:
        ind = os.path.join(d, "inputs")
        os.makedirs(ind)
        paths, exp, box = mtgen.write_inputs(case, ind)
        single = mtgen.write_single(case, ind, exp, box)
        work = os.path.join(d, "work")
        os.makedirs(work)
        pio, bld, proc, world = run_tiling(case, work, paths, k, case.get("sched"), real=real)
        canvas_exp, levels = mtgen.expected_canvas(exp)
        lv = bld.imgset.tile_levels
        if lv != levels:
            raise Violation("tile-levels", f"{what}: tile_levels {lv}, the assembled {exp.shape[1]}x{exp.shape[0]} mosaic needs {levels}")
        got, present = mtgen.read_canvas(pio, levels, case["tile_format"])
        if got.shape != canvas_exp.shape or not np.array_equal(got, canvas_exp, equal_nan=True):
            ne = ~((got == canvas_exp) | (np.isnan(got) & np.isnan(canvas_exp)))
            yy, xx = np.argwhere(ne)[0]
            raise Violation(
                "tiles",
                f"{what}: re-assembled pixel (row {yy}, col {xx}) [tile ({xx//256},{yy//256})] is {got[yy, xx]!r}, tiling the assembled mosaic gives {canvas_exp[yy, xx]!r}; {int(ne.sum())} pixels differ",
            )
        for ty in range(2**levels):
            for tx in range(2**levels):
                has = not np.isnan(canvas_exp[256 * ty : 256 * ty + 256, 256 * tx : 256 * tx + 256]).all()
                if has != ((tx, ty) in present):
                    raise Violation("tiles", f"{what}: tile ({levels},{tx},{ty}) {'missing' if has else 'exists without defined pixels'}")
        locks = [os.path.join(r, f) for r, _d, fs in os.walk(work) for f in fs if f.endswith(".lock")]
        if locks:
            raise Violation("lock-files", f"{what}: lock files remain: {locks[:3]}")
        # astrometric description: collection vs assembled single image (same code route, one input)
        one = dict(case)
        pio1, bld1, _p, _w = run_tiling(one, work, [single], 1, None)
        a, b = imgset_attrs(bld), imgset_attrs(bld1)
        for key in sorted(set(a) | set(b)):
            va, vb = a.get(key), b.get(key)
            same = va == vb
            if not same and va is not None and vb is not None:
                try:
                    fa, fb = float(va), float(vb)
                    same = abs(fa - fb) <= 1e-9 * max(abs(fa), abs(fb)) + 1e-12
                except ValueError:
                    same = False
            if not same:
                raise Violation("description", f"{what}: {key} = {va!r} for the collection but {vb!r} for the assembled mosaic")
        # ... and an independent computation of the astrometry straight from the grid we generated
        from wwt_data_formats.imageset import ImageSet
        from wwt_data_formats.place import Place
        from wwt_data_formats.enums import ProjectionType
        from astropy.wcs import WCS

        hd = mtgen.header_for(case, box[0], box[1], box[2] - box[0], box[3] - box[1], False)
        iset = ImageSet()
        iset.tile_levels = levels
        iset.projection = ProjectionType.TAN if levels > 0 else ProjectionType.SKY_IMAGE
        plc = Place()
        with warnings.catch_warnings():
            warnings.simplefilter("ignore")
            iset.set_position_from_wcs(WCS(hd).to_header(), box[2] - box[0], box[3] - box[1], place=plc)
        for attr, obj, other in (
            ("center_x", iset, bld.imgset), ("center_y", iset, bld.imgset), ("base_degrees_per_tile", iset, bld.imgset),
            ("rotation_deg", iset, bld.imgset), ("offset_x", iset, bld.imgset), ("offset_y", iset, bld.imgset),
            ("width_factor", iset, bld.imgset), ("bottoms_up", iset, bld.imgset), ("tile_levels", iset, bld.imgset),
            ("projection", iset, bld.imgset), ("ra_hr", plc, bld.place), ("dec_deg", plc, bld.place), ("zoom_level", plc, bld.place),
        ):
            ve, vg = getattr(obj, attr), getattr(other, attr)
            ok = ve == vg
            if not ok and isinstance(ve, float):
                tol = 1e-9 * max(abs(ve), abs(vg)) + 1e-9 * case["scale"]
                ok = abs(ve - vg) <= tol
                if not ok and attr == "rotation_deg":
                    ok = abs((ve - vg + 180) % 360 - 180) <= 1e-7
            if not ok:
                raise Violation("description", f"{what}: {attr} = {vg!r} for the collection; the generated grid (CRVAL {case['ra']},{case['dec']} scale {case['scale']} rot {case['rot']}) gives {ve!r}")
        got1, _pr = mtgen.read_canvas(pio1, levels, case["tile_format"])
        if not np.array_equal(got1, canvas_exp, equal_nan=True):
            raise Violation("tiles", f"{what}: tiling the assembled mosaic as one file does not reproduce it")
    # classes
    cls = [case["tile_format"], "bottom-up-inputs" if case["bottom_up"] else "top-down-inputs", f"k{k}", f"inputs{len(case['rects'])}", f"rot{case['rot']}"]
    tiles = []
    gx0 = (canvas_exp.shape[1] - exp.shape[1]) // 2
    gy0 = (canvas_exp.shape[0] - exp.shape[0]) // 2
    for (x0, y0, w, h, b) in case["rects"]:
        X0, Y0 = x0 - box[0] + gx0, y0 - box[1] + gy0
        tiles.append(set((tx, ty) for tx in range(X0 // 256, (X0 + w - 1) // 256 + 1) for ty in range(Y0 // 256, (Y0 + h - 1) // 256 + 1)))
    share = any(tiles[i] & tiles[j] for i in range(len(tiles)) for j in range(i + 1, len(tiles)))
    if share:
        cls.append("inputs-share-a-tile")
    if any(r[4] for r in case["rects"]):
        cls.append("nan-border")
    if case.get("cd"):
        cls.append("CD-spelling")
    if case.get("bottom_up_each") and len(set(case["bottom_up_each"])) == 2:
        cls.append("inputs-of-both-row-orders")
    return Outcome(classes=cls, nontrivial=len(case["rects"]) >= 2 and share, info={"mosaic": [int(exp.shape[1]), int(exp.shape[0])]})


def exec_real(case):
    return exec_case(case, real=True)


@st.composite
def strat(draw, tier):
    case = draw(mtgen.mosaic_cases(tier, max_size=700 if tier == "quick" else 900, allow_inf=True, allow_mixed=True))
    if case["k"] > 1:
        case["sched"] = draw(scen.schedules(max_size=100))
    return case


@st.composite
def strat_real(draw, tier):
    case = draw(mtgen.mosaic_cases(tier, max_size=600, allow_inf=True, allow_mixed=True))
    case["k"] = draw(st.sampled_from([2, 3, 4]))
    return case


PARTS = [
    Part("multi_tan", exec_case, strategy=strat, examples={"quick": 192, "thorough": 4000}, shards={"quick": 16, "thorough": 16},
         budget_s={"quick": 80, "thorough": 1500}, engine="serial for k=1, A for k>=2", describe="generated mosaics and decompositions"),
    Part("multi_tan_realmp", exec_real, strategy=strat_real, examples={"quick": 24, "thorough": 300}, shards={"quick": 8, "thorough": 16},
         budget_s={"quick": 70, "thorough": 1200}, shrink=False, engine="R (real multiprocessing, real file locks)", describe="the same on real multiprocessing with 2-4 workers"),
]


def extra_coverage(cov_parts):
    return {"traces_validated_against_impl": cov_parts.get("multi_tan_realmp", {}).get("evaluations", 0)}
