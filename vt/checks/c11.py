"""C11 — Plate-carree samplers return the source pixel containing each sky point."""

import math

import numpy as np
from hypothesis import strategies as st

from ..core import Part, Outcome, Violation, toasty_call

PROPERTY_ID = "C11"
LEVEL = "exploration"
RULE = (
    "case = (sampler variant, map shape ny x nx in 1..64 incl. 1-pixel axes (a quarter of the cases: 90..999 per axis), optional colour axis of 3 or 4, a 2-D request "
    "array of generated points). Points: any real longitude (|lon| <= 20*pi: base longitude + whole turns), exact multiples of "
    "the cell width, +-pi, 0, 2*pi; latitudes in [-pi/2, pi/2] incl. both ends and exact row boundaries. The map encodes "
    "(row, col) in its values. Oracle: RefPlateCarree computes, in numpy.longdouble, the fractional column/row of the point "
    "under the documented layout of the variant; the returned value must be one of the admissible cells (floor, plus the "
    "neighbour across any cell boundary closer than 1e-9 cells - 1e-5 for the Galactic variant -, the seam neighbour of column "
    "0 being column nx-1). Output shape = request shape + colour axes; no exception. One case in 15 repeats its points cyclically into "
    "a large request (256x256 ... 70000x1, 1x3000, 600x130): same shape rule, equal points get equal pixels. One case in four hands "
    "the request over differently: read-only arrays, integer arrays, one array object for both coordinates, or arrays already used "
    "for an earlier request to the same sampler object and refilled in place. The Galactic variant is checked after an "
    "independent ICRS->Galactic rotation (Hipparcos matrix). The ecliptic sampler's layout is not among those the property "
    "enumerates: only shape / in-range / periodicity are judged for it. Non-trivial: nx,ny>=2 and >=1 point farther than the "
    "tolerance from every cell boundary."
)
ASSUMPTIONS = [
    "documented layouts (samplers.py docstrings): latitude +90 at the top row; sky maps lon increasing to the left with 0 at the centre or at the right edge; planetary maps lon increasing to the right with 0 at the centre or the left edge",
    "Galactic rotation: Hipparcos vol.1 eq. 1.5.11 matrix; astropy differs by < 1e-6 rad (frame bias)",
]

LD = np.longdouble
PI = LD(np.pi) + LD(1.2246467991473532e-16)  # pi to long-double precision
TWOPI = 2 * PI

AG = np.array(
    [
        [-0.0548755604, -0.8734370902, -0.4838350155],
        [+0.4941094279, -0.4448296300, +0.7469822445],
        [-0.8676661490, -0.1980763734, +0.4559837762],
    ]
)

VARIANTS = ["plain", "zeroright", "planet", "planet_zeroleft", "galactic", "ecliptic"]


def make_sampler(variant, data):
    from toasty import samplers as s

    return {
        "plain": s.plate_carree_sampler,
        "zeroright": s.plate_carree_zeroright_sampler,
        "planet": s.plate_carree_planet_sampler,
        "planet_zeroleft": s.plate_carree_planet_zeroleft_sampler,
        "galactic": s.plate_carree_galactic_sampler,
        "ecliptic": s.plate_carree_ecliptic_sampler,
    }[variant](data)


def frac_xy(variant, lon, lat, nx, ny):
    """fractional column x in [0, nx] and row y in [0, ny] of each point (long double)"""
    lon = np.asarray(lon, dtype=LD)
    lat = np.asarray(lat, dtype=LD)
    m = np.mod(lon, TWOPI)  # [0, 2pi)
    if variant in ("plain", "galactic"):
        # lon 0 at the centre, increasing to the left: left edge = +pi
        x = np.mod(PI - m, TWOPI) / TWOPI * nx
    elif variant == "zeroright":
        x = np.mod(TWOPI - m, TWOPI) / TWOPI * nx
    elif variant == "planet":
        x = np.mod(m + PI, TWOPI) / TWOPI * nx
    elif variant == "planet_zeroleft":
        x = m / TWOPI * nx
    else:
        raise KeyError(variant)
    y = (PI / 2 - lat) / PI * ny
    return x, y


def admissible(frac, n, tol, wrap):
    """list of admissible integer cells for fractional coordinate `frac` in [0, n]"""
    f = float(np.floor(frac))
    cells = {int(f)}
    if float(frac - f) <= tol:
        cells.add(int(f) - 1)
    if float(f + 1 - frac) <= tol:
        cells.add(int(f) + 1)
    out = set()
    for c in cells:
        if wrap:
            out.add(c % n)
        else:
            out.add(min(max(c, 0), n - 1))
    return out


def exec_case(case):
    variant = case["variant"]
    ny, nx, planes = case["ny"], case["nx"], case["planes"]
    rows, cols = np.indices((ny, nx))
    code = rows * 1000 + cols
    if planes:
        data = np.stack([code + 100000 * k for k in range(planes)], axis=-1)
    else:
        data = code
    # the map as the caller holds it: native integers, or the big-endian arrays astropy hands out for FITS data
    if case.get("map_dtype"):
        data = data.astype(case["map_dtype"])
    lay = case.get("map_layout")
    if lay == "fortran":
        data = np.asfortranarray(data)  # same values and shape, column-major memory
    elif lay == "transposed-view":
        data = np.ascontiguousarray(np.swapaxes(data, 0, 1)).swapaxes(0, 1)  # a .T-like view of an (nx, ny, ...) array
    elif lay == "channel-first" and planes:
        data = np.moveaxis(np.ascontiguousarray(np.moveaxis(data, -1, 0)), 0, -1)  # a (planes, ny, nx) cube shown as (ny, nx, planes)
    elif lay == "strided":
        wide = np.zeros((ny * 2, nx * 3) + data.shape[2:], dtype=data.dtype)
        wide[::2, ::3] = data
        data = wide[::2, ::3]  # a strided window of a larger array
    data_before = data.copy()
    pts = case["points"]
    shape = tuple(case["shape"])
    big = case.get("big")
    if big:
        # a request larger than one tile (any 2-D shape is a legal request): the generated points repeated cyclically
        shape = tuple(big)
        idx = np.arange(shape[0] * shape[1]) % len(pts)
    else:
        idx = np.arange(len(pts))
    lon = np.array([p[0] + 2 * math.pi * p[2] for p in pts], dtype=float)[idx].reshape(shape)
    lat = np.array([p[1] for p in pts], dtype=float)[idx].reshape(shape)
    req = case.get("request") or {}
    lon_in, lat_in = lon.copy(), lat.copy()
    if req.get("int"):
        lon_in, lat_in = lon_in.astype(np.int64), lat_in.astype(np.int64)
        lon, lat = lon_in.astype(float), lat_in.astype(float)
    if req.get("alias"):
        lat_in = lon_in  # one array object handed over for both coordinates
    with toasty_call("no-exception", f"{variant} sampler on a {ny}x{nx} map, request {req or 'as two fresh float arrays'}"):
        if case.get("other_sampler_first"):
            # another sampler (another layout) is made from the same map first, and used
            g = make_sampler(case["other_sampler_first"], data)
            g(np.array([[0.3, 1.0]]), np.array([[0.1, -0.2]]))
        f = make_sampler(variant, data)
        if req.get("before"):
            # an earlier request through the same sampler and the same array objects, which are then refilled in place
            keep_lon, keep_lat = lon_in.copy(), lat_in.copy()
            b = req["before"]
            bi = np.arange(lon_in.size) % len(b)
            # (a shared array must hold values that are legal latitudes too)
            lon_in[...] = np.array([q[1 if lat_in is lon_in else 0] for q in b], dtype=float)[bi].reshape(lon_in.shape).astype(lon_in.dtype)
            if lat_in is not lon_in:
                lat_in[...] = np.array([q[1] for q in b], dtype=float)[bi].reshape(lat_in.shape).astype(lat_in.dtype)
            f(lon_in, lat_in)
            lon_in[...] = keep_lon
            if lat_in is not lon_in:
                lat_in[...] = keep_lat
        if req.get("readonly"):
            lon_in.setflags(write=False)
            lat_in.setflags(write=False)
        out = np.asarray(f(lon_in, lat_in))
        if req.get("after"):
            # the caller keeps this result and makes another request of the same shape through the same sampler
            a_ = req["after"]
            ai = np.arange(lon.size) % len(a_)
            f(np.array([q[0] for q in a_], dtype=float)[ai].reshape(lon.shape), np.array([q[1] for q in a_], dtype=float)[ai].reshape(lon.shape))
    if data.dtype != data_before.dtype or not np.array_equal(data, data_before):
        raise Violation("cell", f"{variant} sampler on a {ny}x{nx} map of dtype {data_before.dtype}: the caller's map was modified by creating / using the sampler")
    exp_shape = shape + ((planes,) if planes else ())
    if out.shape != exp_shape:
        raise Violation("shape", f"{variant}: output shape {out.shape}, expected {exp_shape}")
    vals = out.reshape((-1,) + ((planes,) if planes else ()))
    if big:
        # equal inputs give equal outputs; the first len(pts) entries are then judged one by one
        rep = vals[: len(pts)][idx]
        if not np.array_equal(rep, vals):
            k = int(np.nonzero((rep != vals).reshape(len(idx), -1).any(axis=1))[0][0])
            raise Violation("cell", f"{variant} sampler, {ny}x{nx} map, request of shape {shape}: element {k} (row {k // shape[1]}, col {k % shape[1]}) and element {k % len(pts)} hold the same point but got different pixels")
        vals = vals[: len(pts)]
    n_clear = 0
    tol = 1e-5 if variant == "galactic" else 1e-9
    flon, flat = lon.ravel()[: len(pts)], lat.ravel()[: len(pts)]
    if variant == "galactic":
        from .. import reftoast as rt

        v = rt.lonlat_to_vec(flon, flat) @ AG.T
        glon, glat = rt.vec_to_lonlat(v)
        qlon, qlat = glon, glat
    else:
        qlon, qlat = flon, flat
    for i in range(len(flon)):
        v = vals[i]
        base = int(v[0]) if planes else int(v)
        r, c = base // 1000, base % 1000
        if planes:
            if any(int(v[k]) != base + 100000 * k for k in range(planes)):
                raise Violation("value", f"{variant}: colour planes of the returned pixel do not belong to one source pixel: {v.tolist()}")
        if not (0 <= r < ny and 0 <= c < nx):
            raise Violation("in-range", f"{variant}: returned value {base} is not a pixel of the {ny}x{nx} map")
        if variant == "ecliptic":
            continue
        x, y = frac_xy(variant, qlon[i], qlat[i], nx, ny)
        ax = admissible(x, nx, tol * max(1, nx) if variant == "galactic" else tol, wrap=True)
        ay = admissible(y, ny, tol * max(1, ny) if variant == "galactic" else tol, wrap=False)
        if c not in ax or r not in ay:
            raise Violation(
                "cell",
                f"{variant} sampler, {ny}x{nx} map: point (lon {flon[i]!r}, lat {flat[i]!r}) returned pixel (row {r}, col {c}); the point lies at fractional (row {float(y):.9f}, col {float(x):.9f}), admissible rows {sorted(ay)} cols {sorted(ax)}",
            )
        if len(ax) == 1 and len(ay) == 1:
            n_clear += 1
    if variant == "ecliptic":
        # periodicity only: same answer for lon and lon + 2*pi*k (exact same float latitudes)
        with toasty_call("no-exception"):
            out2 = np.asarray(f(np.array([p[0] for p in pts], dtype=float)[idx].reshape(shape), lat.copy()))
        if out2.shape != out.shape:
            raise Violation("shape", f"{variant}: output shape {out2.shape}, expected {exp_shape}")
        out, out2 = out.reshape(len(idx), -1)[: len(pts)], out2.reshape(len(idx), -1)[: len(pts)]
        diff = (out2 != out).reshape(len(pts), -1).any(axis=1)
        # a shifted longitude differs from the base one by rounding only; allow neighbours: compare cells
        for i in np.nonzero(diff)[0]:
            a = int(out.reshape(len(pts), -1)[i][0])
            b = int(out2.reshape(len(pts), -1)[i][0])
            ra, ca, rb, cb = a // 1000, a % 1000, b // 1000, b % 1000
            dc = min((ca - cb) % nx, (cb - ca) % nx)
            if abs(ra - rb) > 1 or dc > 1:
                raise Violation("periodic", f"ecliptic sampler: lon {pts[i][0]!r} and the same + {pts[i][2]} turns give pixels {(ra, ca)} and {(rb, cb)}")
    cls = [variant, "colour" if planes else "scalar"]
    if nx == 1 or ny == 1:
        cls.append("one-pixel-axis")
    if nx % 2 or ny % 2:
        cls.append("odd-size")
    if nx > 64 or ny > 64:
        cls.append("map-larger-than-64px")
    if any(p[2] for p in pts):
        cls.append("shifted-by-turns")
    if any(abs(abs(p[1]) - math.pi / 2) < 1e-12 for p in pts):
        cls.append("pole-row")
    if lay:
        cls.append("map-layout:" + lay)
    for k_ in sorted(req):
        cls.append("request:" + k_)
    if big:
        cls.append("request-larger-than-a-tile" if shape[0] * shape[1] > 65536 else "request-of-odd-shape")
    return Outcome(classes=cls, nontrivial=nx >= 2 and ny >= 2 and n_clear >= 1, count=len(pts), info={"clear_points": n_clear})


@st.composite
def strat(draw, tier):
    variant = draw(st.sampled_from(VARIANTS))
    ny = draw(st.sampled_from([1, 2, 3, 4, 5, 7, 8, 16, 31, 32, 33, 64]))
    nx = draw(st.sampled_from([1, 2, 3, 4, 5, 8, 9, 16, 31, 32, 63, 64]))
    if draw(st.integers(0, 3)) == 0:
        # maps of realistic size (the value code row*1000+col holds up to 999 columns; float32 maps keep it exact)
        ny = draw(st.sampled_from([90, 100, 127, 180, 255, 360, 500, 513, 720, 999]))
        nx = draw(st.sampled_from([100, 127, 180, 255, 360, 511, 720, 721, 999]))
    planes = draw(st.sampled_from([0, 0, 3, 4]))
    a = draw(st.integers(1, 6))
    b = draw(st.integers(1, 8))
    pts = []
    for _ in range(a * b):
        kind = draw(st.sampled_from(["any", "any", "colbound", "rowbound", "special"]))
        turns = draw(st.sampled_from([0, 0, 0, 1, -1, 2, -3, 7, -10]))
        if kind == "colbound":
            k = draw(st.integers(-nx, 2 * nx))
            lon = 2 * math.pi * k / nx + draw(st.sampled_from([0.0, 1e-13, -1e-13, 1e-7, -1e-7])) + draw(st.sampled_from([0.0, math.pi]))
            lat = draw(st.floats(-math.pi / 2, math.pi / 2))
        elif kind == "rowbound":
            lon = draw(st.floats(-math.pi, 2 * math.pi))
            k = draw(st.integers(0, ny))
            lat = math.pi / 2 - math.pi * k / ny + draw(st.sampled_from([0.0, 1e-13, -1e-13]))
            lat = max(-math.pi / 2, min(math.pi / 2, lat))
        elif kind == "special":
            lon = draw(st.sampled_from([0.0, math.pi, -math.pi, 2 * math.pi, math.pi / 2, 3 * math.pi / 2, -0.0, 1e-300]))
            lat = draw(st.sampled_from([0.0, math.pi / 2, -math.pi / 2, math.pi / 4, -1e-300]))
        else:
            lon = draw(st.floats(-2 * math.pi, 2 * math.pi))
            lat = draw(st.floats(-math.pi / 2, math.pi / 2))
        pts.append([lon, lat, turns])
    case = {"variant": variant, "ny": ny, "nx": nx, "planes": planes, "points": pts, "shape": [a, b]}
    if draw(st.integers(0, 3)) == 0:
        # the request handed over in other legal ways: read-only arrays (broadcast views are), integer arrays, one array for
        # both coordinates, arrays that were used for an earlier request to the same sampler and refilled in place
        req = {}
        how = draw(st.sampled_from(["readonly", "alias", "int", "before", "before", "before+readonly", "alias+before"]))
        if "alias" in how:
            case["points"] = pts = [[p[1], p[1], 0] for p in pts]
            req["alias"] = True
        if "int" in how:
            case["points"] = pts = [[float(round(p[0])), float(max(-1, min(1, round(p[1])))), 0] for p in pts]
            req["int"] = True
        if "readonly" in how:
            req["readonly"] = True
        if "before" in how:
            req["before"] = [[draw(st.floats(-2 * math.pi, 2 * math.pi)), draw(st.floats(-math.pi / 2, math.pi / 2))] for _ in range(draw(st.integers(1, 4)))]
        case["request"] = req
    if draw(st.integers(0, 4)) == 0:
        # maps as FITS readers deliver them (big-endian), and narrower / wider native types
        case["map_dtype"] = draw(st.sampled_from([">i4", ">f8", ">f4", "<f8", "<i4", ">i8"]))
    if draw(st.integers(0, 5)) == 0:
        case["other_sampler_first"] = draw(st.sampled_from(["plain", "zeroright", "planet", "planet_zeroleft", variant]))
    if draw(st.integers(0, 4)) == 0:
        # the map as other legal numpy arrays of the same shape and values: column-major, a transposed or strided view, channel-first
        case["map_layout"] = draw(st.sampled_from(["fortran", "transposed-view", "channel-first", "strided"]))
    if draw(st.integers(0, 5)) == 0 and not (case.get("request") or {}).get("int") and not (case.get("request") or {}).get("alias"):
        # a later request of the same shape through the same sampler, made before the first result is looked at
        case.setdefault("request", {})["after"] = [[draw(st.floats(-2 * math.pi, 2 * math.pi)), draw(st.floats(-math.pi / 2, math.pi / 2))] for _ in range(draw(st.integers(1, 4)))]
    if draw(st.integers(0, 14)) == 0:
        case["big"] = draw(st.sampled_from([[256, 256], [520, 256], [256, 520], [600, 130], [130, 600], [70000, 1], [1, 3000], [300, 300], [257, 256], [1000, 70]]))
    return case


PARTS = [
    Part("samplers", exec_case, strategy=strat, examples={"quick": 8000, "thorough": 400000}, shards={"quick": 16, "thorough": 16},
         budget_s={"quick": 60, "thorough": 1200}, describe="six plate-carree sampler variants x map shapes x generated request arrays"),
]
