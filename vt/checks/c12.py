"""C12 — Point lookup returns the tile and pixel that actually contain the point."""

import math

import numpy as np
from hypothesis import strategies as st

from ..core import Part, Outcome, Violation, toasty_call
from .. import reftoast as rt
from .. import gens

PROPERTY_ID = "C12"
LEVEL = "exploration"
RULE = (
    "case = (point, depth, coordinate system). Points: uniform on the sphere plus structural points of the TOAST grid "
    "(vertices, edge points, tile centres, the prime-meridian seam, the equator, quadrant-limit meridians k*pi/4 +- 1e-12, the "
    "poles), each optionally shifted by up to +-4 turns of 2*pi. Tile clause: the position returned by toast_tile_for_point "
    "must contain the point by RefToast point-in-tile (1e-9 rad) using the REFERENCE corners of that position, and the "
    "returned corners must equal the reference; lookups at depth d and d+1 are nested; lon and lon+2*pi*k give the same "
    "position unless the point is within tolerance of a shared edge (then any containing tile is accepted). Pixel clause "
    "(points >= 1 degree from the poles): |x-j*|<=2 and |y-i*|<=2 where (i*,j*) is the pixel of the returned tile whose "
    "RefToast centre is nearest to the point in angle. Non-trivial: depth>=2."
)
ASSUMPTIONS = [
    "RefToast point-in-tile: union of the tile's two spherical triangles, tolerance 1e-9 rad",
    "the pixel clause is judged for every real longitude (the documented range [0, 2*pi] and shifted ones alike), as the property's quantifier says",
]


def cs_of(planetary):
    from toasty import toast

    return toast.ToastCoordinateSystem.PLANETARY if planetary else toast.ToastCoordinateSystem.ASTRONOMICAL


def quadrant_class(pos):
    n, x, y = pos
    if n == 0:
        return "root"
    h = 2 ** (n - 1)
    return f"quadrant{(x // h)}{(y // h)}"


def exec_tile(case):
    from toasty import toast

    planetary = case["planetary"]
    pt = case["point"]
    depth = case["depth"]
    lat = pt["lat"]
    lon0 = pt["lon"]
    lon = lon0 + 2 * math.pi * pt["turns"]
    sysname = "planetary" if planetary else "astronomical"
    p = rt.lonlat_to_vec(lon0, lat)
    # 'up to rounding on shared edges': 1e-9 rad, and never more than a twentieth of a tile's width (levels beyond 26)
    TOL = min(1e-9, 0.05 * (math.pi / 2) / 2**depth)
    res = {}
    for name, lo, d in (("d", lon, depth), ("d+1", lon, depth + 1), ("base", lon0, depth)):
        with toasty_call("lookup", f"toast_tile_for_point({d}, {lat!r}, {lo!r}, {sysname})"):
            res[name] = toast.toast_tile_for_point(d, lat, lo, coordsys=cs_of(planetary))
    t = res["d"]
    pos = tuple(t.pos)
    if pos[0] != depth:
        raise Violation("contains", f"lookup at depth {depth} returned level {pos[0]}")
    on_edge = False
    if depth >= 1:
        c, inc = rt.tile_corners(*pos, planetary=planetary)
        tc = np.asarray(t.corners, dtype=float)
        dd = rt.ang_dist(c, rt.lonlat_to_vec(tc[:, 0], tc[:, 1])).max()
        if dd > 1e-12 + 1e-14 * depth:
            raise Violation("contains", f"returned tile {pos} carries corners {dd:.3g} rad from that position's geometry")
        if not rt.point_in_tile(p, c, inc, TOL):
            cont = rt.tiles_containing(depth, p, planetary, TOL)
            raise Violation(
                "contains",
                f"{sysname} lookup of (lon {lon!r}, lat {lat!r}) at depth {depth} returned {pos}, which does not contain the point; containing tile(s): {cont[:3]}",
            )
        on_edge = len(rt.tiles_containing(depth, p, planetary, TOL)) > 1
    # nesting
    t1 = tuple(res["d+1"].pos)
    if t1[0] != depth + 1 or (t1[0] - 1, t1[1] // 2, t1[2] // 2) != pos:
        raise Violation("nested", f"lookup of (lon {lon!r}, lat {lat!r}) gives {pos} at depth {depth} but {t1} at depth {depth+1} (not nested)")
    # periodicity
    tb = tuple(res["base"].pos)
    if tb != pos:
        cb, incb = rt.tile_corners(*tb, planetary=planetary) if depth >= 1 else (None, None)
        ok = depth >= 1 and rt.point_in_tile(p, cb, incb, TOL) and on_edge
        if not ok:
            raise Violation("periodic", f"lon {lon0!r} -> {tb} but lon {lon0!r}+{pt['turns']}*2pi -> {pos} (depth {depth}, lat {lat!r}, {sysname})")
    cls = [sysname, f"depth{depth}" if depth < 6 else "depth>=6", pt["kind"], quadrant_class(pos), "lon-branch%d" % int((lon0 % (2 * math.pi)) // (math.pi / 2))]
    if on_edge:
        cls.append("on-shared-edge")
    if pt["turns"]:
        cls.append("shifted-by-turns")
    return Outcome(classes=cls, nontrivial=depth >= 2)


@st.composite
def strat_tile(draw, tier):
    if draw(st.integers(0, 7)) == 0:
        # very deep lookups next to (not on) a pole: the co-latitude is 1e-5 ... 1e-9 rad
        colat = 10 ** -draw(st.floats(5, 9))
        return {"planetary": draw(st.booleans()), "depth": draw(st.integers(24, 32)),
                "point": {"lon": draw(st.floats(0, 2 * math.pi, allow_nan=False)), "lat": draw(st.sampled_from([1, -1])) * (math.pi / 2 - colat), "turns": 0, "kind": "next-to-pole"}}
    return {"planetary": draw(st.booleans()), "depth": draw(st.one_of(st.integers(0, 8), st.integers(9, 26))), "point": draw(gens.sky_points())}


def exec_pixel(case):
    """a short SEQUENCE of pixel lookups in one process (state kept between lookups must not matter): the
    generated lookup, optionally preceded by its mirror image in the other coordinate system (same tile
    position, sky rotated by pi) and/or by a lookup at another depth"""
    outs = []
    for pre in case.get("before", []):
        c2 = dict(case)
        c2.pop("before", None)
        if pre == "mirror":
            c2["planetary"] = not case["planetary"]
            c2["point"] = dict(case["point"], lon=case["point"]["lon"] + math.pi)
        elif pre == "other-depth":
            c2["depth"] = max(0, case["depth"] - 1)
        outs.append(exec_pixel_one(c2))
    o = exec_pixel_one(case)
    if case.get("before"):
        o.classes.append("after-" + "+".join(case["before"]))
    return o


def exec_pixel_one(case):
    from toasty import toast

    planetary = case["planetary"]
    pt = case["point"]
    depth = case["depth"]
    lat = pt["lat"]
    lon = pt["lon"] + 2 * math.pi * pt["turns"]
    sysname = "planetary" if planetary else "astronomical"
    p = rt.lonlat_to_vec(pt["lon"], lat)
    with toasty_call("pixel", f"toast_pixel_for_point({depth}, {lat!r}, {lon!r}, {sysname})"):
        tile, x, y = toast.toast_pixel_for_point(depth, lat, lon, coordsys=cs_of(planetary))
    pos = tuple(tile.pos)
    if pos[0] != depth:
        raise Violation("contains", f"pixel lookup at depth {depth} returned a tile of level {pos[0]}")
    if depth >= 1:
        c, inc = rt.tile_corners(*pos, planetary=planetary)
    if depth >= 1 and not rt.point_in_tile(p, c, inc, 1e-9):
        raise Violation("contains", f"{sysname} pixel lookup of (lon {lon!r}, lat {lat!r}) at depth {depth} returned tile {pos}, which does not contain the point")
    pc = rt.pixel_centres(*pos, planetary=planetary)
    d = rt.ang_dist(pc, p)
    i_star, j_star = np.unravel_index(d.argmin(), d.shape)
    # on the seam of the level-0 / level-1 tiles one sky point lies on two edges of the square: every pixel
    # whose centre is as near as the nearest one (to rounding) is an admissible answer
    near = np.argwhere(d <= d.min() * (1 + 1e-6) + 1e-12)
    ok_any = np.isfinite(x) and np.isfinite(y) and any(abs(x - j) <= 2 and abs(y - i) <= 2 for i, j in near)
    if not ok_any:
        raise Violation(
            "pixel",
            f"{sysname} pixel lookup of (lon {lon!r}, lat {lat!r}) at depth {depth}: returned (x={x:.3f}, y={y:.3f}) in tile {pos}, nearest pixel centre is column {j_star}, row {i_star}",
        )
    cls = [sysname, f"depth{depth}", pt["kind"], quadrant_class(pos), "lon-branch%d" % int((pt["lon"] % (2 * math.pi)) // (math.pi / 2))]
    if not (0 <= lon <= 2 * math.pi):
        cls.append("lon-outside-0-2pi")
    if abs(lat) > math.radians(80):
        cls.append("high-latitude")
    if i_star in (0, 255) or j_star in (0, 255):
        cls.append("tile-border-pixel")
    return Outcome(classes=cls, nontrivial=depth >= 2, info={"x": float(x), "y": float(y), "nearest": [int(j_star), int(i_star)]})


@st.composite
def strat_pixel(draw, tier):
    return {
        "planetary": draw(st.booleans()),
        "depth": draw(st.integers(0, 6 if tier == "quick" else 10)),
        "point": draw(gens.sky_points(pole_margin=math.radians(1.0))),
        "before": draw(st.sampled_from([[], [], ["mirror"], ["other-depth"], ["mirror", "other-depth"]])),
    }


PARTS = [
    Part("tile_lookup", exec_tile, strategy=strat_tile, examples={"quick": 2400, "thorough": 150000}, shards={"quick": 16, "thorough": 16},
         budget_s={"quick": 60, "thorough": 1200}, describe="toast_tile_for_point: containment, nesting, 2*pi periodicity"),
    Part("pixel_lookup", exec_pixel, strategy=strat_pixel, examples={"quick": 800, "thorough": 60000}, shards={"quick": 16, "thorough": 16},
         budget_s={"quick": 60, "thorough": 1200}, describe="toast_pixel_for_point: fractional pixel within 2 px of the angularly nearest pixel centre"),
]
