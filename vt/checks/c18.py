"""C18 — Publishing is crash-safe: index.wtml reaches the store only after all else."""

import hashlib
import os
import shutil

from hypothesis import strategies as st

from ..core import Part, Outcome, Violation, HarnessError, toasty_call, fresh_dir

PROPERTY_ID = "C18"
LEVEL = "fault_enumeration"
RULE = (
    "case = 1-3 approved images, each a flat set of 1-9 generated file names always containing index.wtml, a generated order "
    "in which the operating system lists each directory (toasty.pipeline's os.listdir is replaced by a proxy returning that "
    "order), file sizes 0-4 KiB, store = the real LocalPipelineIo. For EVERY case EVERY fault point is enumerated: before / in "
    "the middle of / after each individual transfer, before / after the store's own rename of the item to its final name, the "
    "source file missing when its turn comes (listed, then gone for that run), and before / after the final rename of each image, each in two modes: "
    "(a) failure: the transfer raises OSError (after a prefix was written); (b) crash: publish runs in a forked child that "
    "os._exit()s at the point (no finally blocks, no flush). Generated fault sequences (1-3 faults in a row on the same working "
    "directory) are run as well. Oracle after every faulty run: index.wtml of an image in the store => every other file of that "
    "image is in the store with identical bytes; image in published/ => its store copy is complete; the observed put_item order "
    "has index.wtml last; `pipeline refresh` with a harness image source treats an id as already done only if its store copy is "
    "complete apart from index.wtml itself. After a clean re-run: every file identical, all images in published/, none in "
    "approved/. Non-trivial fault point: index.wtml is not last in directory order and the fault hits before the last transfer."
)
ASSUMPTIONS = [
    "a crash is modelled as os._exit in a forked child at a transfer boundary or half-way through a transfer's data; kernel-level partial writes inside one write() call are not modelled",
    "image directories are flat (publish opens every directory entry as a file)",
]


def file_bytes(name, size, salt):
    h = hashlib.sha256(f"{name}:{salt}".encode()).digest()
    return (h * (size // len(h) + 1))[:size]


class OsProxy(object):
    """Stands in for the `os` module inside toasty.pipeline: listdir order is generated."""

    def __init__(self, orders):
        self._orders = orders  # abs dir -> list of names (generated order)

    def listdir(self, path="."):
        real = os.listdir(path)
        want = self._orders.get(os.path.abspath(path))
        if want is None:
            return real
        out = [n for n in want if n in real]
        out += sorted(n for n in real if n not in out)
        return out

    def __getattr__(self, name):
        return getattr(os, name)


class Fault(Exception):
    pass


class FaultingSource(object):
    """wraps the file object handed to put_item: delivers half of the data, then faults"""

    def __init__(self, f, action):
        self._f = f
        self._action = action
        self._n = 0

    def read(self, n=-1):
        self._n += 1
        if self._n == 1:
            data = self._f.read()
            if len(data) >= 2:
                return data[: len(data) // 2]
        self._action()
        return b""


def setup_workdir(d, case):
    import yaml

    work = os.path.join(d, "work")
    store = os.path.join(d, "store")
    os.makedirs(os.path.join(work, "approved"))
    os.makedirs(store)
    with open(os.path.join(work, "toasty-store-config.yaml"), "w") as f:
        yaml.safe_dump({"_type": "local", "path": store}, f)
    with open(os.path.join(work, "toasty-pipeline-config.yaml"), "w") as f:
        yaml.safe_dump({"source_type": "vt-harness", "vt_harness": {"ids": [im["id"] for im in case["images"]]}}, f)
    orders = {os.path.abspath(os.path.join(work, "approved")): [im["id"] for im in case["images"]]}
    content = {}
    for im in case["images"]:
        idir = os.path.join(work, "approved", im["id"])
        os.makedirs(idir)
        orders[os.path.abspath(idir)] = [f[0] for f in im["files"]]
        for name, size in im["files"]:
            data = file_bytes(name, size, im["id"])
            with open(os.path.join(idir, name), "wb") as f:
                f.write(data)
            content[(im["id"], name)] = data
        for sub, names in (im.get("subdirs") or {}).items():
            # part of the image's files live in a sub-directory (not what the pipeline itself writes: such an image may be
            # refused, but whatever reaches the store is judged like everything else)
            os.makedirs(os.path.join(idir, sub))
            orders[os.path.abspath(os.path.join(idir, sub))] = [f[0] for f in names]
            orders[os.path.abspath(idir)].insert(im.get("subdir_at", 0) % (len(im["files"]) + 1), sub)
            for name, size in names:
                data = file_bytes(sub + "/" + name, size, im["id"])
                with open(os.path.join(idir, sub, name), "wb") as f:
                    f.write(data)
                content[(im["id"], sub + "/" + name)] = data
    return work, store, orders, content


def fault_points(case):
    """every (image id, kind, file name) at which a fault can be injected"""
    pts = []
    for im in case["images"]:
        names = [f[0] for f in im["files"]]
        for n in names:
            for kind in ("before", "mid", "after"):
                pts.append([im["id"], kind, n])
            if case.get("store", "local") == "local":
                # inside the store's own write: around the rename that gives the item its final name
                pts.append([im["id"], "store-rename-before", n])
                pts.append([im["id"], "store-rename-after", n])
            # the source file cannot be opened when its turn comes (it is listed, then gone for the duration of the run)
            pts.append([im["id"], "source-missing", n])
            # the store's file system refuses to grow a file beyond half of this item's size while the item is being
            # transferred (a real EFBIG from the kernel, however the store copies the data)
            if dict((f[0], f[1]) for f in im["files"]).get(n, 0) >= 2:
                pts.append([im["id"], "fsize", n])
        for sub, subnames in (im.get("subdirs") or {}).items():
            for n, _size in subnames:
                for kind in ("before", "mid", "after"):
                    pts.append([im["id"], kind, n])
        pts.append([im["id"], "before-rename", None])
        pts.append([im["id"], "after-rename", None])
    return pts


def nonatomic_put_item(self, *path, source=None):
    """A store honouring the PipelineIo interface whose writes are NOT atomic: an interrupted
    transfer leaves a truncated item under its final name (what a plain open(...,'wb') does)."""
    fpath = self._make_item_name(path)
    os.makedirs(os.path.split(fpath)[0], exist_ok=True)
    with open(fpath, "wb") as f:
        shutil.copyfileobj(source, f)


def run_publish(work, orders, fault, mode, calls_log, store_kind="local", may_refuse=False):
    """run PipelineManager.publish with `fault` = [image, kind, name] or None.
    mode: 'fail' (raise OSError in-process) or 'crash' (fork + os._exit).
    Returns 'ok' | 'failed' | 'crashed'."""
    import toasty.pipeline as tp
    from toasty.pipeline import local_io

    fault_seen = []  # set once the injected fault has taken effect in this run

    def body(action0):
        def action():
            fault_seen.append(1)
            action0()

        mgr = tp.PipelineManager(work)
        saved_put = local_io.LocalPipelineIo.put_item
        orig_put = saved_put if store_kind == "local" else nonatomic_put_item
        real_os = tp.os
        real_rename = os.rename

        fired = []

        def put_item(self, *path, source=None):
            uid, name = path[0], path[-1]
            with open(calls_log, "ab", buffering=0) as lf:
                lf.write(f"{uid}\t{name}\n".encode())
            # the fault is transient: it hits the first transfer of that file in this run only
            hit = fault is not None and fault[0] == uid and fault[2] == name and not fired and fault[1] in ("before", "mid", "after")
            if hit:
                fired.append(1)
            if hit and fault[1] == "before":
                action()
            if hit and fault[1] == "mid":
                source = FaultingSource(source, action)
            fs = fault is not None and fault[0] == uid and fault[2] == name and fault[1] == "fsize" and not fired
            if fs:
                import resource
                import signal

                fired.append(1)
                fault_seen.append(1)
                soft, hard = resource.getrlimit(resource.RLIMIT_FSIZE)
                old_handler = signal.signal(signal.SIGXFSZ, signal.SIG_IGN)
                try:
                    size = os.fstat(source.fileno()).st_size
                    resource.setrlimit(resource.RLIMIT_FSIZE, (max(1, size // 2), hard))
                    try:
                        return orig_put(self, *path, source=source)
                    finally:
                        resource.setrlimit(resource.RLIMIT_FSIZE, (soft, hard))
                finally:
                    signal.signal(signal.SIGXFSZ, old_handler)
            r = orig_put(self, *path, source=source)
            if hit and fault[1] == "after":
                action()
            return r

        hidden = []

        class StoreOs(object):
            """stands in for `os` inside the local store: faults around the rename to the final name"""

            def replace(self_, src, dst):
                uid, name = os.path.basename(os.path.dirname(dst)), os.path.basename(dst)
                hit = fault is not None and fault[0] == uid and fault[2] == name and fault[1].startswith("store-rename") and not fired
                if hit:
                    fired.append(1)
                if hit and fault[1] == "store-rename-before":
                    action()
                os.replace(src, dst)
                if hit and fault[1] == "store-rename-after":
                    action()

            def __getattr__(self_, name):
                return getattr(os, name)

        class OsWithRename(OsProxy):
            def listdir(self_, path="."):
                out = OsProxy.listdir(self_, path)
                if fault is not None and fault[1] == "source-missing" and os.path.basename(os.path.abspath(path)) == fault[0] and not hidden:
                    src = os.path.join(path, fault[2])
                    if os.path.isfile(src):
                        dst = os.path.join(os.path.dirname(os.path.abspath(work)), "hidden-" + fault[2])
                        real_rename(src, dst)
                        hidden.append((src, dst))
                        fault_seen.append(1)
                return out

            def rename(self_, src, dst):
                uid = os.path.basename(src)
                hit = fault is not None and fault[0] == uid
                if hit and fault[1] == "before-rename":
                    action()
                real_rename(src, dst)
                if hit and fault[1] == "after-rename":
                    action()

        local_io.LocalPipelineIo.put_item = put_item
        tp.os = OsWithRename(orders)
        real_store_os = local_io.os
        local_io.os = StoreOs()
        try:
            mgr.publish()
        finally:
            local_io.LocalPipelineIo.put_item = saved_put
            tp.os = real_os
            local_io.os = real_store_os
            for src, dst in hidden:
                real_rename(dst, src)  # the file is back for the next run

    if mode == "crash" and fault is not None and fault[1] not in ("source-missing", "fsize"):
        pid = os.fork()
        if pid == 0:
            try:
                body(lambda: os._exit(77))
            except BaseException:  # noqa
                os._exit(99)
            os._exit(0)
        _, status = os.waitpid(pid, 0)
        code = os.waitstatus_to_exitcode(status)
        if code == 77:
            return "crashed"
        if code == 0:
            return "ok"
        if code == 99 and may_refuse:
            return "failed"
        raise HarnessError(f"publish child ended with unexpected status {code}")

    def raise_fault():
        raise OSError(5, "injected transfer failure")

    try:
        body(raise_fault)
    except Exception:
        # once the injected fault has taken effect, publish may fail in whatever way it likes (the statement says what the
        # store must look like afterwards, not how the failure is reported)
        if fault_seen or may_refuse:
            return "failed"
        raise
    return "ok"


def store_state(store, content, case):
    """per image: dict name -> 'ok' | 'partial' | 'missing'"""
    st_ = {}
    for im in case["images"]:
        s = {}
        nested = [sub + "/" + f[0] for sub, names in (im.get("subdirs") or {}).items() for f in names]
        for name in [f[0] for f in im["files"]] + nested:
            p = os.path.join(store, im["id"], name)
            if not os.path.exists(p):
                s[name] = "missing"
            else:
                with open(p, "rb") as f:
                    s[name] = "ok" if f.read() == content[(im["id"], name)] else "partial"
        st_[im["id"]] = s
    return st_


def check_invariants(work, store, content, case, calls_log, what, judge_state=True):
    state = store_state(store, content, case)
    for im in case["images"]:
        uid = im["id"]
        s = state[uid]
        others_ok = all(v == "ok" for n, v in s.items() if n != "index.wtml")
        if judge_state and s["index.wtml"] != "missing" and not others_ok:
            bad = {n: v for n, v in s.items() if n != "index.wtml" and v != "ok"}
            raise Violation("index-last", f"{what}: the store holds index.wtml of image {uid} while other files are {bad}")
        in_app = os.path.isdir(os.path.join(work, "approved", uid))
        in_pub = os.path.isdir(os.path.join(work, "published", uid))
        if in_app == in_pub:
            raise Violation("moved-once", f"{what}: image {uid} is in {'both' if in_app else 'neither'} approved/ and published/")
        if in_pub and not all(v == "ok" for v in s.values()):
            raise Violation("published-complete", f"{what}: image {uid} was moved to published/ but its store copy is {s}")
    # observed call order: index.wtml after every other file of the image, within each attempt
    if os.path.exists(calls_log):
        per = {}
        for line in open(calls_log, "rb").read().decode().splitlines():
            uid, name = line.split("\t")
            per.setdefault(uid, []).append(name)
        for im in case["images"]:
            seq = per.get(im["id"], [])
            if "index.wtml" in seq and seq.index("index.wtml") != len(seq) - 1:
                raise Violation("index-last", f"{what}: put_item order for image {im['id']} is {seq}: index.wtml is not the last transfer")
    return state


def run_refresh(work):
    import argparse
    from toasty.pipeline import cli as pcli

    cand = os.path.join(work, "candidates")
    shutil.rmtree(cand, ignore_errors=True)
    pcli.refresh_impl(argparse.Namespace(workdir=work))
    return set(os.listdir(cand)) if os.path.isdir(cand) else set()


def check_refresh(work, store, content, case, what):
    state = store_state(store, content, case)
    with toasty_call("refresh", what):
        saved = run_refresh(work)
    for im in case["images"]:
        uid = im["id"]
        s = state[uid]
        complete_but_index = all(v == "ok" for n, v in s.items() if n != "index.wtml")
        if uid not in saved and not complete_but_index:
            raise Violation("refresh-skips-partial", f"{what}: refresh treated image {uid} as already done although its store copy is {s}")


def register_source():
    import toasty.pipeline as tp

    if "vt-harness" in tp.IMAGE_SOURCE_CLASS_LOADERS:
        return

    class Cand(tp.CandidateInput):
        def __init__(self, uid):
            self.uid = uid

        def get_unique_id(self):
            return self.uid

        def save(self, stream):
            stream.write(b"candidate")

    class Src(tp.ImageSource):
        def __init__(self, ids):
            self.ids = ids

        @classmethod
        def get_config_key(cls):
            return "vt_harness"

        @classmethod
        def deserialize(cls, data):
            return cls(list(data["ids"]))

        def query_candidates(self):
            for i in self.ids:
                yield Cand(i)

        def fetch_candidate(self, unique_id, cand_data_stream, cachedir):
            raise NotImplementedError

        def process(self, unique_id, cand_data_stream, cachedir, builder):
            raise NotImplementedError

    tp.IMAGE_SOURCE_CLASS_LOADERS["vt-harness"] = lambda: Src


def one_history(case, faults, what0):
    """faults: list of (point, mode). Fresh working directory; faulty runs, then a clean one."""
    n_runs = 0
    nested = any(im.get("subdirs") for im in case["images"])
    kind = case.get("store", "local")
    what0 = what0 + f"; store={kind}"
    with fresh_dir("c18-") as d:
        work, store, orders, content = setup_workdir(d, case)
        log = os.path.join(d, "calls.log")
        for fi, (pt, mode) in enumerate(faults):
            if os.path.exists(log):
                os.unlink(log)
            what = f"{what0}; fault {mode} at {pt}"
            with toasty_call("publish", what):
                res = run_publish(work, orders, pt, mode, log, kind, may_refuse=nested)
            n_runs += 1
            # with a store whose writes are not atomic, a SECOND faulty attempt can truncate a file that
            # sits next to the first attempt's index.wtml whatever publish does: only the first fault's
            # state is judged there (call order and completion are judged always)
            judge_state = kind == "local" or fi == 0
            check_invariants(work, store, content, case, log, what, judge_state)
            if judge_state:
                check_refresh(work, store, content, case, what)
        if os.path.exists(log):
            os.unlink(log)
        what = f"{what0}; clean run after faults {[f[0] for f in faults]}"
        with toasty_call("publish", what):
            res = run_publish(work, orders, None, "fail", log, kind, may_refuse=nested)
        n_runs += 1
        if nested and res != "ok":
            # an image with a sub-directory was refused: only the state of the store is judged
            check_invariants(work, store, content, case, log, what)
            return n_runs
        if res != "ok":
            raise Violation("rerun-completes", f"{what}: the clean re-run did not complete ({res})")
        state = check_invariants(work, store, content, case, log, what)
        for im in case["images"]:
            if not all(v == "ok" for v in state[im["id"]].values()):
                raise Violation("rerun-completes", f"{what}: store copy of {im['id']} is {state[im['id']]}")
            if not os.path.isdir(os.path.join(work, "published", im["id"])) or os.path.isdir(os.path.join(work, "approved", im["id"])):
                raise Violation("rerun-completes", f"{what}: image {im['id']} was not moved to published/")
        saved = run_refresh(work)
        if saved:
            raise Violation("refresh-skips-partial", f"{what}: refresh re-queued fully published images {sorted(saved)}")
    return n_runs


def exec_case(case):
    register_source()
    what0 = "images " + "; ".join(f"{im['id']}:{[f[0] for f in im['files']]}" for im in case["images"])
    pts = fault_points(case)
    n = 0
    nontrivial_pts = 0
    for pt in pts:
        for mode in (("fail",) if pt[1] in ("source-missing", "fsize") else ("fail", "crash")):
            n += one_history(case, [(pt, mode)], what0)
        im = [i for i in case["images"] if i["id"] == pt[0]][0]
        names = [f[0] for f in im["files"]]
        if names[-1] != "index.wtml" and pt[2] is not None and pt[2] != names[-1]:
            nontrivial_pts += 1
    # two faults in a row, enumerated: the first attempt gets everything into the store but fails just before the image is
    # moved to published/; the second attempt fails while re-sending one of the other files
    for im in case["images"]:
        first = ([im["id"], "before-rename", None], "fail")
        for name, size in im["files"]:
            if name == "index.wtml":
                continue
            for kind in ("mid", "fsize", "store-rename-before"):
                if kind == "fsize" and size < 2:
                    continue
                if kind == "store-rename-before" and case.get("store", "local") != "local":
                    continue
                n += one_history(case, [first, ([im["id"], kind, name], "fail")], what0)
    for seq in case["sequences"]:
        faults = [(pts[i % len(pts)], m) for i, m in seq]
        n += one_history(case, faults, what0)
    n += one_history(case, [], what0)
    cls = [f"images{len(case['images'])}", "store:" + case.get("store", "local")]
    for im in case["images"]:
        names = [f[0] for f in im["files"]]
        k = names.index("index.wtml")
        cls.append("index-first" if k == 0 else ("index-last" if k == len(names) - 1 else "index-middle"))
    if any(f[1] == 0 for im in case["images"] for f in im["files"]):
        cls.append("empty-file")
    if any(f[1] >= (1 << 20) for im in case["images"] for f in im["files"]):
        cls.append("big-item")
    if any(im.get("subdirs") for im in case["images"]):
        cls.append("sub-directory")
    return Outcome(classes=sorted(set(cls)), nontrivial=nontrivial_pts > 0, count=n, info={"fault_points": len(pts), "runs": n})


NAMES = ["thumb.jpg", "L0X0Y0.png", "L1X0Y0.png", "L1X1Y0.png", "L1X0Y1.png", "L1X1Y1.png", "index_rel.wtml", "a", "zzz.bin", "INDEX.WTML", "index.wtml.bak", "0"]


@st.composite
def strat(draw, tier):
    nim = draw(st.integers(1, 3 if tier == "thorough" else 2))
    images = []
    for i in range(nim):
        k = draw(st.integers(0, 8 if tier == "thorough" else 5))
        names = draw(st.lists(st.sampled_from(NAMES), min_size=k, max_size=k, unique=True))
        pos = draw(st.integers(0, len(names)))
        names.insert(pos, "index.wtml")
        files = [[n, draw(st.sampled_from([0, 1, 17, 1000, 4096]))] for n in names]
        if len(files) >= 2 and draw(st.integers(0, 5)) == 0:
            # one big item (a base-layer mosaic): stores may treat large items differently
            j = draw(st.integers(0, len(files) - 1))
            if files[j][0] != "index.wtml":
                files[j][1] = (1 << 20) + draw(st.sampled_from([0, 37, 4096]))
        img = {"id": f"img{i}_{draw(st.integers(0, 9))}", "files": files}
        if draw(st.integers(0, 6)) == 0:
            img["subdirs"] = {"tiles": [[n, draw(st.sampled_from([1, 17, 1000]))] for n in draw(st.lists(st.sampled_from(["0_0.png", "1_0.png", "x.bin"]), min_size=1, max_size=2, unique=True))]}
            img["subdir_at"] = draw(st.integers(0, 8))
        images.append(img)
    seqs = draw(st.lists(st.lists(st.tuples(st.integers(0, 200), st.sampled_from(["fail", "crash"])), min_size=1, max_size=3), max_size=3))
    return {"images": images, "sequences": [[list(t) for t in s] for s in seqs], "store": draw(st.sampled_from(["local", "local", "nonatomic"]))}


PARTS = [
    Part("publish_faults", exec_case, strategy=strat, examples={"quick": 480, "thorough": 6000}, shards={"quick": 16, "thorough": 16},
         budget_s={"quick": 70, "thorough": 1500}, describe="generated file sets and listing orders; every fault point x {failure, crash}; generated fault sequences; refresh after each"),
]


def extra_coverage(cov_parts):
    return {"exhaustive_note": "per generated case every fault point is enumerated (see elementary_checks = publish runs executed)"}
