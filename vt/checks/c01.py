"""C01 — Cascade walk: each live parent exactly once, only after all its live children."""

import itertools
from collections import Counter

from hypothesis import strategies as st

from ..core import Part, Outcome, Violation, HarnessError
from .. import refpyramid as rp
from .. import gens, scen
from ..simsched import SimUnsupported

PROPERTY_ID = "C01"
LEVEL = "exploration"
RULE = (
    "case = (kind in generic/TOAST/filtered/planetary, depth, tile filter, apex, worker count k, schedule). k=1 runs "
    "the serial walk; k>=2 runs the real, unmodified dispatcher and worker functions on Engine A (simulated "
    "Queue/Event/Process; scheduler = generated choice list spread over the run + one of 8 priority policies with "
    "age fairness; feeder flushes and time-outs are schedulable transitions). Oracle: RefPyramid.ops (reference model) "
    "= multiset of callback starts; every started callback finds the end record of each live non-leaf child earlier in "
    "the log; the call returns (structural hang detection) with every worker exited. Non-trivial: >=1 op and (k>=2 with "
    ">=1 scheduler choice that differed from the policy's own pick, or a gap filter, or an apex with n>=1)."
)
ASSUMPTIONS = [
    "Engine A models Queue (per-producer feeder buffer + FIFO pipe + bounded semaphore), Event and Process; OS pipe capacity is unbounded; callbacks are atomic except at their checkpoint",
    "simulated processes receive deep copies of their arguments at start (fork emulation); harness recorders are shared like an O_APPEND log file",
    "real OS interleavings are only sampled by the realmp part (Engine R), which validates the model rather than decides the schedule clause",
]


def judge_walk(case, ref, log, status, hang, world=None, exc=None):
    desc = {k: v for k, v in case.items() if k != "sched"}
    if status == "hang":
        raise Violation("returns", f"walk never returns: {hang}; case {desc}")
    if status == "raised":
        if isinstance(exc, SimUnsupported):
            raise exc
        raise Violation("returns", f"walk raised {type(exc).__name__}: {exc}; case {desc}")
    if status != "returned":
        raise HarnessError(f"simulation inconclusive: {status}")
    starts = [e[1] for e in log if e[0] == "S"]
    c = Counter(starts)
    exp = ref.ops
    dup = sorted(p for p, n in c.items() if n > 1)
    if dup:
        raise Violation("exactly-once", f"callback ran more than once for {dup[:4]}; case {desc}")
    got = set(starts)
    if got != exp:
        miss = sorted(exp - got)[:4]
        extra = sorted(got - exp)[:4]
        why = ""
        if extra:
            e0 = extra[0]
            why = " (leaf)" if e0[0] == ref.depth else (" (not live / out of scope)")
        raise Violation("exactly-once", f"callbacks {len(got)} != live non-leaf tiles {len(exp)}: missing {miss} unexpected {extra}{why}; case {desc}")
    ended = set()
    for e in log:
        if e[0] == "E":
            ended.add(e[1])
        else:
            p = e[1]
            for ch in rp.children(p):
                if ch in exp and ch not in ended:
                    raise Violation("children-first", f"callback for {p} started before the callback of its live child {ch} completed; case {desc}")
    if world is not None:
        if not world.all_exited():
            raise Violation("returns", f"walk returned while worker processes were still running; case {desc}")


def judge_faulty_walk(case, ref, log, fail):
    """one callback raised: whether and how the walk reports that is C19's subject; what C01 says about the callbacks that DID
    start holds all the same - never twice, only for live non-leaf tiles, and only after every live child's callback COMPLETED (the
    failed one never did, so none of its ancestors may start)"""
    desc = {k: v for k, v in case.items() if k != "sched"}
    desc["callback_that_raised"] = list(fail)
    starts = [e[1] for e in log if e[0] == "S"]
    dup = sorted(p for p, n in Counter(starts).items() if n > 1)
    if dup:
        raise Violation("exactly-once", f"callback ran more than once for {dup[:4]}; case {desc}")
    extra = sorted(set(starts) - ref.ops)[:4]
    if extra:
        raise Violation("exactly-once", f"callback ran for {extra}, not live non-leaf tiles; case {desc}")
    ended = set()
    for e in log:
        if e[0] == "E":
            ended.add(e[1])
        else:
            for ch in rp.children(e[1]):
                if ch in ref.ops and ch not in ended:
                    raise Violation("children-first", f"callback for {e[1]} started although the callback of its live child {ch} {'raised' if ch == tuple(fail) else 'had not completed'}; case {desc}")


def exec_walk(case):
    ref = scen.ref_of(case)
    k = case.get("k", 1)
    classes = [case["kind"], f"depth{case['depth']}", f"k{k}"]
    info = {"ops": len(ref.ops)}
    if case.get("fail_idx") is not None and k >= 2:
        order = [p for p in ref.order if p in ref.ops]
        if len(order) >= 2:
            from ..simsched import SimWorld

            fail = order[case["fail_idx"] % (len(order) - 1)]  # never the last one (the apex): it has no ancestor to release
            w = SimWorld(case.get("sched"))
            rec = scen.Recorder(w, fail_at=fail, fail_exc=RuntimeError)
            w, res = scen.run_sim(lambda: scen.make_pyramid(case).walk(rec.walk_cb, parallel=k), None, world=w)
            if res["status"] == "raised" and isinstance(res["exc"], SimUnsupported):
                raise res["exc"]
            judge_faulty_walk(case, ref, rec.log, fail)
            return Outcome(classes=classes + ["one-callback-raises"], nontrivial=True, info=info)
    if k == 1:
        rec = scen.Recorder()
        try:
            scen.make_pyramid(case).walk(rec.walk_cb, parallel=1)
            status, exc = "returned", None
        except Exception as e:  # noqa
            status, exc = "raised", e
        judge_walk(case, ref, rec.log, status, None, exc=exc)
        dev = 0
    else:
        from ..simsched import SimWorld

        w = SimWorld(case.get("sched"))
        rec = scen.Recorder(w)
        w, res = scen.run_sim(lambda: scen.make_pyramid(case).walk(rec.walk_cb, parallel=k), None, world=w)
        judge_walk(case, ref, rec.log, res["status"], res["hang"], world=w, exc=res["exc"])
        dev = w.deviations
        info.update(steps=res["steps"], deviations=dev, timeouts=w.timeouts_fired)
        if w.timeouts_fired:
            classes.append("timeout-fired")
        if w.timeouts_fired_with_buffered:
            classes.append("timeout-while-item-in-feeder")
        pids = set(e[2] for e in rec.log)
        if len(pids) > 1:
            classes.append("multi-worker")
    gap = case["kind"] == "filtered" and gens.filter_has_gap(case["filter"], case["depth"])
    apex = case.get("apex")
    if gap:
        classes.append("gap-filter")
    if apex is not None:
        classes.append("apex-at-depth" if apex[0] == case["depth"] else f"apex-level{apex[0]}")
        if not ref.leaves:
            classes.append("apex-disjoint")
    if not ref.ops:
        classes.append("no-ops")
    # a parent released by a pre-readied bit: live op with a non-live child
    if any(any(ch not in ref.live for ch in rp.children(p)) for p in ref.ops):
        classes.append("pre-readied-parent")
    nt = bool(ref.ops) and ((k >= 2 and dev >= 1) or gap or (apex is not None and apex[0] >= 1))
    return Outcome(classes=classes, nontrivial=nt, info=info)


def exec_walk_real(case):
    """the same oracle on REAL multiprocessing (validates Engine A's model on samples)"""
    import os
    from ..core import fresh_dir
    from ..realmp import FileRecorder, watchdog, WatchdogExpired, reap_children
    import multiprocessing as mp

    ref = scen.ref_of(case)
    k = case["k"]
    with fresh_dir("c01r-") as d:
        rec = FileRecorder(os.path.join(d, "log"))
        status, exc, hang = "returned", None, None
        try:
            with watchdog(45):
                scen.make_pyramid(case).walk(rec.walk_cb, parallel=k)
        except WatchdogExpired:
            # a wall clock alone is never a verdict: it is a hang only if no process is left that could
            # ever report a completion (every worker has exited while the caller still waits)
            if any(c.is_alive() for c in mp.active_children()):
                reap_children(1)
                return Outcome(classes=["realmp", "watchdog-inconclusive"], nontrivial=False)
            status, hang = "hang", "real walk still waiting after 45 s although every worker process has exited"
        except Exception as e:  # noqa
            status, exc = "raised", e
        left = [c for c in mp.active_children() if c.is_alive()]
        log = rec.log()
        reap_children()
        judge_walk(case, ref, log, status, hang, exc=exc)
        if status == "returned" and left:
            raise Violation("returns", f"walk returned while {len(left)} worker processes were still running; case {case}")
    cls = ["realmp", case["kind"], f"depth{case['depth']}", f"k{k}"]
    if len(set(e[2] for e in log)) > 1:
        cls.append("multi-worker")
    gap = case["kind"] == "filtered" and gens.filter_has_gap(case["filter"], case["depth"])
    apex = case.get("apex")
    return Outcome(classes=cls, nontrivial=bool(ref.ops) and (len(ref.ops) >= 2 or gap or (apex is not None and apex[0] >= 1)), info={"ops": len(ref.ops)})


@st.composite
def strat_walk_real(draw, tier):
    case = draw(scen.pyramid_cases(3, with_k=False, min_depth=2))
    if case.get("apex") is not None and case["apex"][0] > 1:
        case["apex"] = [1, case["apex"][1] % 2, case["apex"][2] % 2]
    case["k"] = draw(st.sampled_from([2, 3, 4]))
    return case


def exec_history(case):
    """several walks one after another in ONE process: state left behind by a walk must not leak into the next"""
    cls = set(["history"])
    nt = False
    for i, w in enumerate(case["walks"]):
        try:
            out = exec_walk(w)
        except Violation as v:
            raise Violation(v.clause, f"walk #{i} of a history of {len(case['walks'])} walks in one process: {v.msg}")
        cls.update(out.classes)
        nt = nt or out.nontrivial
    return Outcome(classes=sorted(cls), nontrivial=nt and len(case["walks"]) >= 2, count=len(case["walks"]))


@st.composite
def strat_history(draw, tier):
    n = draw(st.integers(2, 3))
    walks = []
    pattern = draw(st.sampled_from(["free", "escalate", "escalate"]))
    for i in range(n):
        w = draw(scen.pyramid_cases(3 if tier == "quick" else 4, min_depth=1))
        if w.get("k", 1) == 1 and draw(st.booleans()):
            w["k"] = 2
            w["sched"] = draw(scen.schedules())
        if pattern == "escalate":
            # a filtered parallel walk first, then parallel walks of deeper, unfiltered pyramids: whatever the
            # first walk leaves behind (tables, buffers) meets tiles that now have four live children
            w.pop("apex", None)
            if w.get("k", 1) == 1:
                w["k"] = draw(st.sampled_from([2, 3]))
                w["sched"] = draw(scen.schedules())
            if i == 0:
                w["kind"] = "filtered"
                w["depth"] = draw(st.integers(1, 2))
                w["filter"] = draw(gens.filter_specs(w["depth"]))
                w.setdefault("coordsys", "astronomical")
            else:
                w["kind"] = draw(st.sampled_from(["generic", "toast"]))
                w.pop("filter", None)
                w["depth"] = min(4, walks[0]["depth"] + draw(st.integers(0, 2)))
                if w["kind"] == "toast":
                    w.setdefault("coordsys", "astronomical")
        walks.append(w)
    return {"walks": walks}


@st.composite
def strat_walk(draw, tier):
    case = draw(scen.pyramid_cases(4 if tier == "quick" else 6, deep_one_in=10))
    if case.get("k", 1) >= 2 and draw(st.integers(0, 6)) == 0:
        case["fail_idx"] = draw(st.integers(0, 400))  # one callback raises: the ordering clause must survive that
    return case


# exhaustive sub-space: every canonical filter of a depth-2 pyramid, k=2, 4 adversarial schedule families

L1 = [(1, 0, 0), (1, 1, 0), (1, 0, 1), (1, 1, 1)]
POS20 = L1 + [c for p in L1 for c in rp.children(p)]
FAMILIES = [
    {"choices": [], "policy": 1},  # workers first
    {"choices": [], "policy": 0},  # dispatcher first, feeder late
    {"choices": [], "policy": 3},  # time-outs whenever enabled, feeder last
    {"choices": [], "policy": 4},  # time-outs first, dispatcher last
]


def enum_d2(tier):
    stride = 1 if tier == "thorough" else 23
    i = 0
    for l1 in range(16):
        idx = [j for j in range(4) if l1 >> j & 1]
        for combo in itertools.product(range(16), repeat=len(idx)):
            i += 1
            if i % stride:
                continue
            bits = l1
            for j, cm in zip(idx, combo):
                bits |= cm << (4 + 4 * j)
            acc = [list(POS20[b]) for b in range(20) if bits >> b & 1]
            for fam in range(4):
                yield {"kind": "filtered", "depth": 2, "filter": {"default": False, "flip": acc}, "k": 2, "sched": FAMILIES[fam], "family": fam}


PARTS = [
    Part(
        "walk_sim",
        exec_walk,
        strategy=strat_walk,
        examples={"quick": 3000, "thorough": 400000},
        shards={"quick": 16, "thorough": 16},
        budget_s={"quick": 70, "thorough": 1500},
        engine="A (simulated multiprocessing) / serial for k=1",
        describe="Hypothesis-generated pyramids x k in 1..8 x schedules",
    ),
    Part(
        "walk_depth2_all_filters",
        exec_walk,
        enumerate=enum_d2,
        shards={"quick": 16, "thorough": 16},
        budget_s={"quick": 70, "thorough": 1500},
        engine="A",
        describe="every canonical accepted-set filter of a depth-2 pyramid (thorough: all 83521; quick: every 23rd) x k=2 x 4 fixed adversarial schedule families",
    ),
]
PARTS[1].exhaustive_tiers = {"thorough"}
PARTS.append(
    Part(
        "walk_history_sim",
        exec_history,
        strategy=strat_history,
        examples={"quick": 600, "thorough": 40000},
        shards={"quick": 16, "thorough": 16},
        budget_s={"quick": 60, "thorough": 1200},
        engine="A / serial for k=1",
        describe="histories of 2-3 walks (different pyramids, filters, worker counts) in one process",
    )
)
PARTS.append(
    Part(
        "walk_realmp",
        exec_walk_real,
        strategy=strat_walk_real,
        examples={"quick": 48, "thorough": 600},
        shards={"quick": 8, "thorough": 16},
        budget_s={"quick": 70, "thorough": 1500},
        shrink=False,
        engine="R (real multiprocessing, callbacks log to an O_APPEND file)",
        describe="the same pyramids walked on real multiprocessing with 2-4 workers; order judged from the linearised log",
    )
)


def extra_coverage(cov_parts):
    return {"traces_validated_against_impl": cov_parts.get("walk_realmp", {}).get("evaluations", 0)}
