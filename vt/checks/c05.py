"""C05 — A tile's 256x256 pixel grid is the centres of the tiles eight levels deeper."""

import numpy as np
from hypothesis import strategies as st

from ..core import Part, Outcome, Violation, toasty_call
from .. import refpyramid as rp
from .. import reftoast as rt
from .. import gens

PROPERTY_ID = "C05"
LEVEL = "exploration"
RULE = (
    "case = one tile position, evaluated in BOTH coordinate systems in the same process. toast_tile_get_coords(tile)[.., i, j] "
    "is compared for all 65536 pixels with the RefToast centre of tile (n+8, 256x+j, 256y+i) (row = y, column = x; unit-vector "
    "distance <= 1e-12+1e-14*(n+8) rad); every centre must pass RefToast point-in-tile for its own tile and lie in the latitude "
    "range of the tile's corners; sampled pixels (the four corners, quadrant seams, generated ones) are also compared with the "
    "Python-side route create_single_tile(Pos(n+8, 256x+j, 256y+i)) + diagonal mid-point. Tiles: every tile to depth 3 (quick) / "
    "5 (thorough) exhaustively, generated tiles to depth 16. Tiles come from create_single_tile, from generate_tiles (also consumed "
    "lazily with the other system used in between) and from the leaf visit of a Pyramid object while a second pyramid for the other "
    "system exists. "
    "The level-0 tile has no Tile object; its grid is observed as the coordinates handed to the sampler by sample_layer(depth 0) and "
    "compared with the centres of the level-8 tiles. Non-trivial: n>=1 (every such tile is asymmetric, a transposed or mirrored "
    "grid fails) or the level-0 grid."
)
ASSUMPTIONS = ["RefToast pixel centres: 8-fold vertex-grid refinement of the tile's corners + diagonal mid-points of the cells"]


def cs_of(planetary):
    from toasty import toast

    return toast.ToastCoordinateSystem.PLANETARY if planetary else toast.ToastCoordinateSystem.ASTRONOMICAL


def in_tile_mask(P, corners, inc, tol):
    """vectorised point-in-tile for points P (...,3): union of the two triangles"""
    ul, ur, lr, ll = corners

    def tri(a, b, c):
        s = np.sign(np.dot(a, np.cross(b, c))) or 1.0
        ok = np.ones(P.shape[:-1], dtype=bool)
        for u, v in ((a, b), (b, c), (c, a)):
            nrm = np.cross(u, v)
            ln = np.linalg.norm(nrm)
            if ln == 0:
                continue
            ok &= s * (P @ (nrm / ln)) >= -tol
        return ok

    if inc:
        return tri(ul, ur, ll) | tri(ur, lr, ll)
    return tri(ul, ur, lr) | tri(ul, lr, ll)


def check_tile(pos, planetary, pixels, source):
    from toasty import toast
    from toasty.pyramid import Pos
    from toasty._libtoasty import mid

    n, x, y = pos
    cs = cs_of(planetary)
    sysname = "planetary" if planetary else "astronomical"
    with toasty_call("coords"):
        if source == "generate" and n <= 5:
            tile = [t for t in toast.generate_tiles(n, bottom_only=True, coordsys=cs) if tuple(t.pos) == (n, x, y)][0]
        elif source == "generate-interleaved" and n <= 5:
            # the enumeration is consumed lazily and the other coordinate system is used while it is suspended
            tile = None
            for k, t in enumerate(toast.generate_tiles(n, bottom_only=True, coordsys=cs)):
                if k % 3 == 1:
                    toast.toast_tile_for_point(2, 0.3, 1.0, coordsys=cs_of(not planetary))
                if tuple(t.pos) == (n, x, y):
                    tile = t
            if tile is None:
                raise Violation("coords", f"generate_tiles({n}) did not yield tile {pos}")
        elif source == "pyramid" and n <= 5:
            # the tile is handed out by a Pyramid object's leaf visit; a second pyramid, for the other system, exists too
            from toasty.pyramid import Pyramid

            pyr = Pyramid.new_toast(n, coordsys=cs)
            other = Pyramid.new_toast(n, coordsys=cs_of(not planetary))
            got = []
            pyr.visit_leaves(lambda p_, t_: got.append(t_) if tuple(p_) == (n, x, y) else None, parallel=1)
            if len(got) != 1:
                raise Violation("coords", f"visiting the leaves of a depth-{n} pyramid handed out tile {pos} {len(got)} times")
            tile = got[0]
        else:
            tile = toast.create_single_tile(Pos(n, x, y), coordsys=cs)
        lon, lat = toast.toast_tile_get_coords(tile)
    lon = np.asarray(lon)
    lat = np.asarray(lat)
    if lon.shape != (256, 256) or lat.shape != (256, 256):
        raise Violation("shape", f"toast_tile_get_coords returned shapes {lon.shape}, {lat.shape}")
    V = rt.lonlat_to_vec(lon, lat)
    ref = rt.pixel_centres(n, x, y, planetary)
    d = rt.ang_dist(ref, V)
    t = 1e-12 + 1e-14 * (n + 8)
    if d.max() > t:
        i, j = np.unravel_index(d.argmax(), d.shape)
        hint = ""
        if rt.ang_dist(ref, np.swapaxes(V, 0, 1)).max() <= t:
            hint = " (the grid is transposed)"
        raise Violation(
            "centres",
            f"tile {pos} ({sysname}): pixel (row {i}, col {j}) is {d.max():.3g} rad from the centre of tile ({n+8}, {256*x+j}, {256*y+i}){hint}; {(d > t).sum()} of 65536 pixels differ",
        )
    c, inc = rt.tile_corners(n, x, y, planetary)
    inside = in_tile_mask(V, c, inc, 1e-11)
    if not inside.all():
        i, j = np.argwhere(~inside)[0]
        raise Violation("inside", f"tile {pos} ({sysname}): pixel centre (row {i}, col {j}) lies outside its tile")
    clat = np.asarray(tile.corners, dtype=float)[:, 1]
    if lat.min() < clat.min() - 1e-12 or lat.max() > clat.max() + 1e-12:
        raise Violation("lat-range", f"tile {pos} ({sysname}): pixel latitudes [{lat.min()}, {lat.max()}] leave the corners' range [{clat.min()}, {clat.max()}]")
    # Python-side route for sampled pixels
    for (i, j) in pixels:
        with toasty_call("coords"):
            sub = toast.create_single_tile(Pos(n + 8, 256 * x + j, 256 * y + i), coordsys=cs)
            ul, ur, lr, ll = sub.corners
            ce = mid(ll, ur) if sub.increasing else mid(ul, lr)
        dd = float(rt.ang_dist(rt.lonlat_to_vec(ce[0], ce[1]), V[i, j]))
        if dd > t:
            raise Violation("python-route", f"tile {pos} ({sysname}): pixel (row {i}, col {j}) differs by {dd:.3g} rad from the centre of create_single_tile(({n+8}, {256*x+j}, {256*y+i}))")
    return inc, bool(abs(clat).max() > 1.57)


FIXED_PIXELS = [(0, 0), (0, 1), (1, 0), (1, 1), (0, 255), (255, 0), (255, 255), (127, 128), (128, 127), (127, 127), (128, 128), (3, 200)]


def exec_tile(case):
    pos = tuple(case["pos"])
    pixels = FIXED_PIXELS + [tuple(p) for p in case.get("pixels", [])]
    cls = [f"n{pos[0]}" if pos[0] < 6 else "n>=6"]
    order = [False, True] if not case.get("planetary_first") else [True, False]
    for planetary in order:
        inc, polar = check_tile(pos, planetary, pixels, case.get("source", "single"))
        cls.append("increasing" if inc else "decreasing")
        if polar:
            cls.append("touches-pole")
    # and once more in the first system: a per-position cache filled by the other system would show here
    check_tile(pos, order[0], FIXED_PIXELS[:4], "single")
    return Outcome(classes=sorted(set(cls)), nontrivial=pos[0] >= 1, count=3)


def enum_tiles(tier):
    maxd = 3 if tier == "quick" else 5
    for k, p in enumerate(rp.all_positions(maxd)):
        if p[0] >= 1:
            yield {"pos": list(p), "source": ["generate", "single", "pyramid", "single", "generate-interleaved", "single"][k % 6], "planetary_first": bool(k % 2)}


@st.composite
def strat_tiles(draw, tier):
    pos = draw(gens.positions(16, 1))
    if draw(st.integers(0, 4)) == 0:
        pos = [pos[0], 0, 0]  # the tile at the corner of the square (south pole)
    px = draw(st.lists(st.tuples(st.integers(0, 255), st.integers(0, 255)), max_size=6))
    return {"pos": pos, "pixels": [list(p) for p in px], "planetary_first": draw(st.booleans())}


def exec_level0(case):
    """the level-0 tile (the whole sphere): its pixel grid is observable as the coordinates handed to a sampler when a
    depth-0 layer is sampled; pixel (i, j) must be the centre of tile (8, j, i)"""
    from toasty import toast
    from toasty.pyramid import PyramidIO
    from ..core import fresh_dir

    planetary = case["planetary"]
    sysname = "planetary" if planetary else "astronomical"
    got = []

    def sampler(lon, lat):
        got.append((np.array(lon, dtype=float), np.array(lat, dtype=float)))
        return np.ones(np.shape(lon), dtype=np.float32)

    for pre in case.get("before", []):
        # other uses of the module first (per-process caches)
        with toasty_call("coords"):
            toast.toast_tile_get_coords(toast.create_single_tile(toast.Pos(*pre), coordsys=cs_of(not planetary)))
    with fresh_dir("c05-") as d:
        with toasty_call("coords", "sampling a depth-0 layer"):
            toast.sample_layer(PyramidIO(d, default_format="npy"), sampler, 0, coordsys=cs_of(planetary), parallel=1)
    if len(got) != 1:
        raise Violation("level0", f"sampling a depth-0 layer ({sysname}) called the sampler {len(got)} times")
    lon, lat = got[0]
    if lon.shape != (256, 256) or lat.shape != (256, 256):
        raise Violation("shape", f"the level-0 grid has shapes {lon.shape}, {lat.shape}")
    V = rt.lonlat_to_vec(lon, lat)
    ref = rt.pixel_centres(0, 0, 0, planetary)
    dd = rt.ang_dist(ref, V)
    t = 1e-12
    if dd.max() > t:
        i, j = np.unravel_index(dd.argmax(), dd.shape)
        raise Violation("centres", f"level-0 tile ({sysname}): pixel (row {i}, col {j}) is {dd.max():.3g} rad from the centre of tile (8, {j}, {i}); {(dd > t).sum()} of 65536 pixels differ")
    return Outcome(classes=["n0", sysname], nontrivial=True, count=1)


def enum_level0(tier):
    for planetary in (False, True):
        yield {"planetary": planetary}
        yield {"planetary": planetary, "before": [[1, 0, 1], [3, 2, 5]]}


def exec_sampler_grids(case):
    """what 'sampling a layer' refers to: the coordinate grids handed to the sampler while a layer of depth d is sampled are,
    tile by tile, the centres of the tiles eight levels deeper - whatever the output format (bottom-up FITS included), the
    entry point (plain, filtered with an accept-all filter, Builder.toast_base) and the coordinate system"""
    from toasty import toast
    from toasty.pyramid import PyramidIO
    from toasty.builder import Builder
    from ..core import fresh_dir

    planetary, depth, fmt, route = case["planetary"], case["depth"], case["format"], case["route"]
    sysname = "planetary" if planetary else "astronomical"
    what = f"sampling a depth-{depth} {fmt} layer ({sysname}) through {route}"
    got = []

    def sampler(lon, lat):
        got.append((np.array(lon, dtype=float), np.array(lat, dtype=float)))
        if fmt == "png":
            return np.full(np.shape(lon) + (3,), 7, dtype=np.uint8)
        return np.ones(np.shape(lon), dtype=np.float32)

    with fresh_dir("c05s-") as d:
        pio = PyramidIO(d, default_format=fmt)
        with toasty_call("coords", what):
            if route == "sample_layer":
                toast.sample_layer(pio, sampler, depth, coordsys=cs_of(planetary), parallel=1)
            elif route == "sample_layer_filtered":
                toast.sample_layer_filtered(pio, lambda t: True, sampler, depth, coordsys=cs_of(planetary), parallel=1)
            else:
                Builder(pio).toast_base(sampler, depth, is_planet=planetary, parallel=1)
    n = 4**depth
    if len(got) != n:
        raise Violation("level0", f"{what}: the sampler was called {len(got)} times for {n} tiles")
    refs = {(x, y): rt.pixel_centres(depth, x, y, planetary) for x in range(2**depth) for y in range(2**depth)}
    used = {}
    t = 1e-12
    for k, (lon, lat) in enumerate(got):
        if lon.shape != (256, 256) or lat.shape != (256, 256):
            raise Violation("shape", f"{what}: call {k} got grids of shapes {lon.shape}, {lat.shape}")
        V = rt.lonlat_to_vec(lon, lat)
        best, bestd = None, None
        for xy, ref in refs.items():
            dd = rt.ang_dist(ref, V)
            m = dd.max()
            if bestd is None or m < bestd:
                best, bestd, bdd = xy, m, dd
        if bestd > t:
            i, j = np.unravel_index(bdd.argmax(), bdd.shape)
            raise Violation("centres", f"{what}: the grid of sampler call {k} is no tile's pixel grid; closest is tile ({depth}, {best[0]}, {best[1]}), where pixel (row {i}, col {j}) is {bestd:.3g} rad from the centre of tile ({depth + 8}, {256 * best[0] + j}, {256 * best[1] + i}); {(bdd > t).sum()} of 65536 pixels differ")
        if best in used:
            raise Violation("centres", f"{what}: sampler calls {used[best]} and {k} both received the grid of tile ({depth}, {best[0]}, {best[1]})")
        used[best] = k
    return Outcome(classes=[f"n{depth}", sysname, fmt, route], nontrivial=True, count=n)


def enum_sampler_grids(tier):
    for depth in (0, 1, 2):
        for fmt in ("npy", "fits", "png"):
            for planetary in (False, True):
                for route in ("sample_layer", "sample_layer_filtered", "toast_base"):
                    if depth == 2 and tier == "quick" and route == "toast_base" and fmt == "png":
                        continue
                    yield {"depth": depth, "format": fmt, "planetary": planetary, "route": route}


PARTS = [
    Part("all_tiles_small_depth", exec_tile, enumerate=enum_tiles, shards={"quick": 16, "thorough": 16}, budget_s={"quick": 80, "thorough": 1500},
         describe="every tile with 1<=n<=3 (quick) / <=5 (thorough), all 65536 pixels, both systems"),
    Part("sampled_tiles", exec_tile, strategy=strat_tiles, examples={"quick": 200, "thorough": 6000}, shards={"quick": 16, "thorough": 16},
         budget_s={"quick": 60, "thorough": 1200}, describe="generated tiles to depth 16 (incl. the square's corner tile), all pixels, both systems"),
    Part("level0_grid", exec_level0, enumerate=enum_level0, shards={"quick": 2, "thorough": 2}, budget_s={"quick": 60, "thorough": 60},
         describe="the level-0 tile's grid as handed to a sampler of a depth-0 layer, both systems"),
    Part("sampler_grids", exec_sampler_grids, enumerate=enum_sampler_grids, shards={"quick": 16, "thorough": 16}, budget_s={"quick": 80, "thorough": 300},
         describe="the grids handed to the sampler while a layer of depth 0-2 is sampled (npy / fits / png output; plain, filtered, Builder.toast_base; both systems) are the tiles' own pixel grids, each tile once"),
]
PARTS[2].exhaustive_tiers = {"quick", "thorough"}
