"""C10 — Concurrent updates of one tile never lose a contribution."""

import os

import numpy as np
from hypothesis import strategies as st

from ..core import Part, Outcome, Violation, HarnessError, fresh_dir
from ..gated import GatedRun

PROPERTY_ID = "C10"
LEVEL = "exploration"
RULE = (
    "case = (2-4 updater PROCESSES, each with its own PyramidIO and 1-3 updates of 1-2 tile positions; each update paints a "
    "generated rectangle (disjoint or overlapping with the others) with an updater-specific value, through the callers' idiom "
    "(update_into_maskable_buffer inside `with pio.update_image(...)`) or by writing into the yielded buffer directly; tile "
    "format npy or fits; a generated schedule). Engine B: real forked processes, the real filelock.SoftFileLock and real files; "
    "every lock attempt, read, write start, write middle (the file is half-written at that moment) and lock release is a gate "
    "that only the controller opens, one process at a time, in the generated order (lock attempts on a held lock are allowed, "
    "bounded). Oracle: the final tile equals the updates applied one after another in the order in which their writes "
    "completed; no updater ever fails to decode a tile (a half-written file seen inside the critical section); no dead-lock; "
    "no lock file remains. Non-trivial: at some step >=2 updaters were simultaneously between wanting the lock and having "
    "released it on the same tile."
)
ASSUMPTIONS = [
    "gate granularity: lock attempt / read / write start / write middle / release / after release, plus every file-system call the pyramid module itself makes while a read-modify-write is in progress; kernel-level atomicity of O_CREAT|O_EXCL is trusted",
    "one case in six injects one failure (EDQUOT) into the creation of one updater's lock marker: that update may fail visibly; the final tile must still equal the completed writes applied one after another",
    "float32 tiles; NaN = undefined",
]

POS = [(1, 0, 1), (2, 3, 0)]


def apply_model(buf, upd):
    y0, x0, h, w = upd["rect"]
    buf[y0 : y0 + h, x0 : x0 + w] = upd["value"]


def child_program(d, fmt, updates, inputs=None):
    if inputs is not None:
        # the multi-image tiler's serial path, run as an independent job on the shared pyramid
        def prog_tiler():
            import warnings
            from toasty import collection, multi_tan
            from toasty.builder import Builder
            from toasty.pyramid import PyramidIO

            pio = PyramidIO(d, default_format=fmt)
            with warnings.catch_warnings():
                warnings.simplefilter("ignore")
                proc = multi_tan.MultiTanProcessor(collection.load([inputs]))
                proc.compute_global_pixelization(Builder(pio))
                proc._tile_serial(pio, False) if hasattr(proc, "_tile_serial") else proc.tile(pio, parallel=1)

        return prog_tiler

    def prog():
        from toasty.pyramid import PyramidIO, Pos
        from toasty.image import Image, ImageMode

        pio = PyramidIO(d, default_format=fmt)
        for u in updates:
            pos = Pos(*POS[u["pos"]])
            y0, x0, h, w = u["rect"]
            if u["idiom"] == "image":
                src = np.full((256, 256), np.nan, dtype=np.float32)
                src[y0 : y0 + h, x0 : x0 + w] = u["value"]
                img = Image.from_array(src)
                with pio.update_image(pos, masked_mode=ImageMode.F32, default="masked") as basis:
                    img.update_into_maskable_buffer(basis, slice(None), slice(None), slice(None), slice(None))
            else:
                with pio.update_image(pos, masked_mode=ImageMode.F32, default="masked") as basis:
                    basis._as_writeable_array()[y0 : y0 + h, x0 : x0 + w] = u["value"]

    return prog


def exec_tilers(case):
    """two independent serial multi-TAN tiling jobs on one pyramid, each contributing one half of the
    same tile, under a generated gate order (the jobs' tile updates must be mutually exclusive too)"""
    from astropy.io import fits
    from .. import mtgen

    fmt = case["format"]
    W, H = case["size"]
    mos = mtgen.mosaic_array(W, H)
    grid = {"W": W, "H": H, "ra": 30.0, "dec": 10.0, "scale": 1e-3, "rot": 0.0}
    with fresh_dir("c10t-") as d:
        os.makedirs(os.path.join(d, "in"))
        pyr = os.path.join(d, "pyr")
        paths = []
        njobs = case["jobs"]
        for i in range(njobs):
            data = np.full((H, W), np.nan, dtype=np.float32)
            x0, x1 = (W * i) // njobs, (W * (i + 1)) // njobs
            data[:, x0:x1] = mos[:, x0:x1]
            hd = mtgen.header_for(grid, 0, 0, W, H, False)
            pth = os.path.join(d, "in", f"job{i}.fits")
            fits.writeto(pth, data, header=hd)
            paths.append(pth)
        run = GatedRun([child_program(pyr, fmt, None, inputs=pth) for pth in paths])
        try:
            res = run.run(case["schedule"])
            errors = [(c.idx, c.error) for c in run.children if c.error]
        except RuntimeError as e:
            raise HarnessError(str(e))
        finally:
            run.close()
        what = f"{njobs} independent serial multi-TAN jobs on one pyramid, {fmt}"
        if res["status"] == "deadlock":
            raise Violation("dead-lock", f"{what}: every live job waits for a lock that nobody releases")
        if res["status"] != "completed":
            raise HarnessError("gated run inconclusive: " + res["status"])
        if errors:
            raise Violation("reader-sees-partial-tile", f"{what}: job {errors[0][0]} failed inside its update: {errors[0][1]}")
        from toasty.pyramid import PyramidIO

        canvas_exp, levels = mtgen.expected_canvas(mos)
        got, _present = mtgen.read_canvas(PyramidIO(pyr, default_format=fmt), levels, fmt)
        if not np.array_equal(got, canvas_exp, equal_nan=True):
            lost = [i for i in range(njobs) if np.isnan(got[(canvas_exp.shape[0] - H) // 2 + H // 2, (canvas_exp.shape[1] - W) // 2 + (W * i) // njobs + 1])]
            raise Violation("lost-update", f"{what}: the final tiles lack the contribution of job(s) {lost}")
    return Outcome(classes=["multi_tan_serial_jobs", fmt, f"jobs{njobs}", "overlap" if res["overlap_steps"] else "no-contention"], nontrivial=res["overlap_steps"] > 0, info={"steps": res["steps"]})


@st.composite
def strat_tilers(draw, tier):
    return {"format": draw(st.sampled_from(["npy", "fits"])), "size": [draw(st.integers(20, 200)), draw(st.integers(20, 200))], "jobs": 2,
            "schedule": draw(st.lists(st.integers(0, 11), max_size=80))}


def exec_case(case):
    fmt = case["format"]
    with fresh_dir("c10-") as d:
        fresh = bool(case.get("fresh_interpreters"))
        if fresh:
            # independently started jobs: every updater is a newly started interpreter (own hash seed, nothing inherited)
            progs = [{"module": "vt.checks.c10", "func": "child_program", "args": [d, fmt, ups]} for ups in case["updaters"]]
        else:
            progs = [child_program(d, fmt, ups) for ups in case["updaters"]]
        # a transient fault at the lock-acquire step of one updater: creating its lock marker fails once (disk quota). The
        # update may fail - visibly - but an update that does go through still has to be applied as if alone
        fault = case.get("lock_fault")
        run = GatedRun(progs, fresh_interpreters=fresh, child_opts={fault[0] % len(progs): {"lock_fault": fault[1]}} if fault else None)
        try:
            res = run.run(case["schedule"])
            errors = [(c.idx, c.error, [e for e in c.events if e.startswith("traceback")][-1:]) for c in run.children
                      if c.error and not (fault and c.idx == fault[0] % len(progs) and "injected by the harness" in c.error and "lock-fault-injected" in c.events)]
            order = list(run.order)
            unfinished = [c.idx for c in run.children if not c.finished]
        except RuntimeError as e:
            raise HarnessError(str(e))
        finally:
            run.close()
        what = f"{len(progs)} updaters, {fmt}"
        if res["status"] == "deadlock":
            raise Violation("dead-lock", f"{what}: every live updater waits for a lock that nobody releases")
        if res["status"] != "completed":
            raise HarnessError("gated run inconclusive: " + res["status"])
        if errors:
            raise Violation("reader-sees-partial-tile", f"{what}: updater {errors[0][0]} failed inside its update: {errors[0][1]} {errors[0][2]}")
        # order of completed writes -> sequential model
        per_child_idx = {i: 0 for i in range(len(progs))}
        model = {}
        for (ci, ev) in order:
            if ev.startswith("write-done "):
                u = case["updaters"][ci][per_child_idx[ci]]
                per_child_idx[ci] += 1
                p = POS[u["pos"]]
                buf = model.setdefault(p, np.full((256, 256), np.nan, dtype=np.float32))
                apply_model(buf, u)
        from toasty.pyramid import PyramidIO, Pos

        pio = PyramidIO(d, default_format=fmt)
        for p, exp in model.items():
            path = pio.tile_path(Pos(*p), makedirs=False)
            if not os.path.exists(path):
                raise Violation("lost-update", f"{what}: tile {p} does not exist after the updates")
            if fmt == "npy":
                got = np.load(path)
            else:
                from astropy.io import fits

                with fits.open(path) as hl:
                    got = np.array(hl[0].data)
            if not np.array_equal(got, exp, equal_nan=True):
                # which contributions are missing?
                missing = []
                for ci, ups in enumerate(case["updaters"]):
                    for ui, u in enumerate(ups):
                        if POS[u["pos"]] != p:
                            continue
                        y0, x0, h, w = u["rect"]
                        # pixels where this update is the last writer in the model
                        sel = exp[y0 : y0 + h, x0 : x0 + w] == u["value"]
                        if sel.any() and not (got[y0 : y0 + h, x0 : x0 + w][sel] == u["value"]).all():
                            missing.append((ci, ui))
                raise Violation(
                    "lost-update",
                    f"{what}: final tile {p} differs from the updates applied one after another in write order; contributions lost (updater, update#): {missing[:4]}; step order: {[(c, e.split(' ')[0]) for c, e in order if not e.startswith('traceback')][:40]}",
                )
            if os.path.exists(pio.tile_path(Pos(*p), makedirs=False) + ".lock"):
                raise Violation("lock-file", f"{what}: lock file of tile {p} remains")
    cls = [fmt, f"updaters{len(progs)}", "overlap" if res["overlap_steps"] else "no-contention"]
    if fresh:
        cls.append("freshly-started-interpreters")
    if fault:
        cls.append("fault-at-lock-acquire")
    if any(u["idiom"] == "direct" for ups in case["updaters"] for u in ups):
        cls.append("direct-buffer-write")
    return Outcome(classes=cls, nontrivial=res["overlap_steps"] > 0, info={"steps": res["steps"], "contended_steps": res["overlap_steps"]})


@st.composite
def strat(draw, tier):
    n = draw(st.integers(2, 4))
    npos = draw(st.integers(1, 2))
    ups = []
    val = 1
    for i in range(n):
        lst = []
        for _ in range(draw(st.integers(1, 3))):
            y0, x0 = draw(st.integers(0, 200)), draw(st.integers(0, 200))
            lst.append({"pos": draw(st.integers(0, npos - 1)), "rect": [y0, x0, draw(st.integers(1, 256 - y0)), draw(st.integers(1, 256 - x0))],
                        "value": float(val), "idiom": draw(st.sampled_from(["image", "image", "direct"]))})
            val += 1
        ups.append(lst)
    case = {"format": draw(st.sampled_from(["npy", "fits"])), "updaters": ups, "schedule": draw(st.lists(st.integers(0, 11), max_size=120))}
    if draw(st.sampled_from([False] * 11 + [True])):
        case["fresh_interpreters"] = True
    if draw(st.integers(0, 5)) == 0:
        case["lock_fault"] = [draw(st.integers(0, 3)), draw(st.integers(1, 3))]
    return case


# ------------------------------------------------------------------ independent sampling jobs on one pyramid


def sampler_field(spec, lon, lat):
    """the sampler of one job: a constant inside a latitude band (everywhere when the band is the whole sphere), NaN elsewhere"""
    v = np.full(np.shape(lon), np.nan, dtype=np.float32)
    v[(lat >= spec["lat0"]) & (lat <= spec["lat1"])] = spec["value"]
    return v


def sampler_program(d, fmt, spec):
    def prog():
        from toasty import toast
        from toasty.pyramid import PyramidIO

        pio = PyramidIO(d, default_format=fmt)
        only = tuple(SAMPLED_TILE)
        toast.sample_layer_filtered(pio, lambda t: tuple(t.pos) == only or t.pos.n < only[0], lambda lon, lat: sampler_field(spec, lon, lat), only[0], parallel=1)

    return prog


SAMPLED_TILE = (1, 0, 1)


def exec_samplers(case):
    """2-3 independent filtered-sampling jobs (update mode) painting the same tile, gates ordered by a generated schedule;
    the final tile must be the jobs' paintings applied one after another in the order of their completed writes"""
    from toasty import toast
    from toasty.pyramid import PyramidIO, Pos

    fmt = case["format"]
    with fresh_dir("c10s-") as d:
        run = GatedRun([sampler_program(d, fmt, sp) for sp in case["jobs"]])
        try:
            res = run.run(case["schedule"])
            errors = [(c.idx, c.error) for c in run.children if c.error]
            order = list(run.order)
        except RuntimeError as e:
            raise HarnessError(str(e))
        finally:
            run.close()
        what = f"{len(case['jobs'])} independent sample_layer_filtered jobs on tile {SAMPLED_TILE}, {fmt}, jobs {case['jobs']}"
        if res["status"] == "deadlock":
            raise Violation("dead-lock", f"{what}: every live job waits for a lock that nobody releases")
        if res["status"] != "completed":
            raise HarnessError("gated run inconclusive: " + res["status"])
        if errors:
            raise Violation("reader-sees-partial-tile", f"{what}: job {errors[0][0]} failed: {errors[0][1]}")
        tile = toast.create_single_tile(Pos(*SAMPLED_TILE))
        lon, lat = toast.toast_tile_get_coords(tile)
        exp = np.full((256, 256), np.nan, dtype=np.float32)
        writes = [ci for (ci, ev) in order if ev.startswith("write-done ")]
        for ci in writes:
            new = sampler_field(case["jobs"][ci], lon, lat)
            exp = np.where(np.isnan(new), exp, new)
        pio = PyramidIO(d, default_format=fmt)
        path = pio.tile_path(Pos(*SAMPLED_TILE), makedirs=False)
        if not os.path.exists(path):
            if np.isfinite(exp).any():
                raise Violation("lost-update", f"{what}: the tile does not exist after the jobs")
            got = exp
        elif fmt == "npy":
            got = np.load(path)
        else:
            from astropy.io import fits

            with fits.open(path) as hl:
                got = np.array(hl[0].data)[::-1]
        if not np.array_equal(got, exp, equal_nan=True):
            lost = sorted(set(ci for ci in writes if not np.array_equal(np.where(np.isnan(sampler_field(case["jobs"][ci], lon, lat)), np.nan, got)[exp == case["jobs"][ci]["value"]], exp[exp == case["jobs"][ci]["value"]], equal_nan=True)))
            raise Violation("lost-update", f"{what}: the final tile differs from the jobs' paintings applied one after another in write order {writes}; contributions of job(s) {lost} are missing or overwritten; step order {[(c, e.split(' ')[0]) for c, e in order if not e.startswith('traceback')][:40]}")
    full = [j for j in case["jobs"] if j["lat0"] <= -1.6 and j["lat1"] >= 1.6]
    cls = ["sampling-jobs", fmt, f"jobs{len(case['jobs'])}", "overlap" if res["overlap_steps"] else "no-contention"]
    if full:
        cls.append("a-job-covers-the-whole-tile")
    return Outcome(classes=cls, nontrivial=res["overlap_steps"] > 0, info={"steps": res["steps"]})


@st.composite
def strat_samplers(draw, tier):
    jobs = []
    for i in range(draw(st.integers(2, 3))):
        if draw(st.integers(0, 2)) == 0:
            lat0, lat1 = -2.0, 2.0  # every pixel of the tile
        else:
            lat0 = draw(st.sampled_from([-2.0, -0.6, 0.0, 0.4]))
            lat1 = draw(st.sampled_from([0.2, 0.7, 1.0, 2.0]))
            if lat1 <= lat0:
                lat1 = lat0 + 0.5
        jobs.append({"lat0": lat0, "lat1": lat1, "value": float(i + 1)})
    return {"format": draw(st.sampled_from(["npy", "fits"])), "jobs": jobs, "schedule": draw(st.lists(st.integers(0, 11), max_size=80))}


PARTS = [
    Part("gated_sampling_jobs", exec_samplers, strategy=strat_samplers, examples={"quick": 160, "thorough": 6000}, shards={"quick": 16, "thorough": 16},
         budget_s={"quick": 60, "thorough": 1200}, engine="B (gated real processes, real SoftFileLock)", describe="2-3 independent sample_layer_filtered jobs (update mode) painting the same TOAST tile, gates ordered by a generated schedule"),
    Part("gated_tiler_jobs", exec_tilers, strategy=strat_tilers, examples={"quick": 96, "thorough": 4000}, shards={"quick": 16, "thorough": 16},
         budget_s={"quick": 60, "thorough": 1200}, engine="B (gated real processes, real SoftFileLock)", describe="two independent serial multi-TAN tiling jobs updating the same tile of one pyramid, gates ordered by a generated schedule"),
    Part("gated_updaters", exec_case, strategy=strat, examples={"quick": 480, "thorough": 30000}, shards={"quick": 16, "thorough": 16},
         budget_s={"quick": 70, "thorough": 1500}, engine="B (gated real processes, real SoftFileLock)", describe="generated updaters x rectangles x schedules over the gates"),
]
