"""C20 — Each input file contributes exactly the HDU and WCS solution the user selected."""

import argparse
import os

import numpy as np
from hypothesis import strategies as st

from ..core import Part, Outcome, Violation, toasty_call, fresh_dir

PROPERTY_ID = "C20"
LEVEL = "exploration"
RULE = (
    "case = 1-5 generated multi-extension FITS files (empty or image primary, 2-D image HDUs of unique shape / fill value / "
    "CRVAL, 1-D image HDUs without WCS, 1-D scan rows with a two-axis WCS (selectable explicitly, loaded as 1 x N, skipped by the automatic choice), binary tables, optional alternate WCS solutions A..C with their own CRVALs) x a selector for the "
    "HDU (none | scalar index | per-file list) x a selector for the WCS key (none/default | scalar | per-file list) x a route "
    "(collection.load, SimpleFitsCollection, CollectionLoader.create_from_args on an argparse namespace parsed from strings, "
    "toasty.tile_fits's argument plumbing). Model: file i contributes HDU idx / idx[i] / its first HDU holding >=2-D image "
    "data, with WCS key likewise. Oracle: descriptions(), images() and export_simple() each yield, in input order, exactly "
    "that HDU (shape, fill value, CRVAL of the selected solution); description i and image i agree in shape and WCS. "
    "Non-trivial: >=2 files whose selected indices (or keys) differ."
)
ASSUMPTIONS = ["selectors always name an HDU holding 2-D image data and a WCS key present in that HDU (selecting a table or a missing key is outside the property)"]


def build_files(d, files):
    """files: list of lists of HDU specs. Returns paths and per-file HDU info."""
    from astropy.io import fits
    from astropy.wcs import WCS

    paths = []
    for fi, hdus in enumerate(files):
        hl = []
        for hi, h in enumerate(hdus):
            kind = h["kind"]
            if kind == "empty":
                hdu = fits.PrimaryHDU() if hi == 0 else fits.ImageHDU()
            elif kind == "table":
                col = fits.Column(name="a", format="E", array=np.arange(3, dtype=np.float32))
                hdu = fits.BinTableHDU.from_columns([col])
            elif kind == "image1d":
                data = np.arange(5, dtype=np.float32)
                hdu = fits.PrimaryHDU(data) if hi == 0 else fits.ImageHDU(data)
            elif kind == "row1d":
                # a single scan row: 1-D data carrying a regular two-axis celestial WCS (loaded as a 1 x N image); the
                # automatic choice skips it, an explicit selection must honour it
                nx = h["shape"][1]
                data = np.full((nx,), float(h["fill"]), dtype=np.float32)
                hdu = fits.PrimaryHDU(data) if hi == 0 else fits.ImageHDU(data)
                for key, crval in h["wcs"].items():
                    w = WCS(naxis=2)
                    w.wcs.ctype = ["RA---TAN", "DEC--TAN"]
                    w.wcs.crval = [crval[0], crval[1]]
                    w.wcs.crpix = [nx / 2 + 0.5, 1.0]
                    w.wcs.cdelt = [-0.01, 0.01]
                    hdu.header.update(w.to_header(key=key))
            elif kind == "cube":
                ny, nx = h["shape"]
                nf = h["nfreq"]
                order = h["order"]  # FITS axis order, fastest first
                np_shape = {"RDF": (nf, ny, nx), "FRD": (ny, nx, nf), "RFD": (ny, nf, nx)}[order]
                data = np.full(np_shape, float(h["fill"]), dtype=np.float32)
                hdu = fits.PrimaryHDU(data) if hi == 0 else fits.ImageHDU(data)
                for key, crval in h["wcs"].items():
                    w = WCS(naxis=3)
                    names = {"R": "RA---TAN", "D": "DEC--TAN", "F": "FREQ"}
                    w.wcs.ctype = [names[c] for c in order]
                    w.wcs.crval = [{"R": crval[0], "D": crval[1], "F": 1.4e9}[c] for c in order]
                    w.wcs.crpix = [{"R": nx / 2 + 0.5, "D": ny / 2 + 0.5, "F": 1.0}[c] for c in order]
                    w.wcs.cdelt = [{"R": -0.01, "D": 0.01, "F": 1e6}[c] for c in order]
                    hdu.header.update(w.to_header(key=key))
            else:
                ny, nx = h["shape"]
                if kind == "comp2d":
                    data = np.full((ny, nx), int(h["fill"]), dtype=np.int32)
                    hdu = fits.CompImageHDU(data, compression_type="RICE_1")
                else:
                    data = np.full((ny, nx), float(h["fill"]), dtype=np.float32)
                    hdu = fits.PrimaryHDU(data) if hi == 0 else fits.ImageHDU(data)
                for key, crval in h["wcs"].items():
                    w = WCS(naxis=2)
                    w.wcs.ctype = ["RA---TAN", "DEC--TAN"]
                    w.wcs.crval = [crval[0], crval[1]]
                    w.wcs.crpix = [nx / 2 + 0.5, ny / 2 + 0.5]
                    w.wcs.cdelt = [-0.01, 0.01]
                    hdu.header.update(w.to_header(key=key))
            hl.append(hdu)
        if not isinstance(hl[0], fits.PrimaryHDU):
            hl.insert(0, fits.PrimaryHDU())
            raise AssertionError("first HDU must be primary")
        p = os.path.join(d, f"in{fi}.fits")
        fits.HDUList(hl).writeto(p)
        paths.append(p)
    return paths


IMAGE_KINDS = ("image2d", "comp2d", "cube")
SELECTABLE = IMAGE_KINDS + ("row1d",)


def first_image_hdu(hdus):
    for i, h in enumerate(hdus):
        if h["kind"] in IMAGE_KINDS:
            return i
    raise AssertionError


def expected(case):
    out = []
    refs = case.get("path_refs") or list(range(len(case["files"])))
    for fi, ref in enumerate(refs):
        hdus = case["files"][ref]
        sel = case["hdu_sel"]
        if sel["kind"] == "none":
            idx = first_image_hdu(hdus)
        elif sel["kind"] == "scalar":
            idx = sel["value"]
        else:
            idx = sel["value"][fi]
        ks = case["key_sel"]
        if ks["kind"] == "none":
            key = " "
        elif ks["kind"] == "scalar":
            key = ks["value"]
        else:
            key = ks["value"][fi]
        h = hdus[idx]
        out.append({"idx": idx, "shape": tuple(h["shape"]), "fill": float(h["fill"]), "crval": tuple(h["wcs"][key])})
    return out


def build_collection(case, paths, captured):
    from toasty import collection

    route = case["route"]
    hs, ks = case["hdu_sel"], case["key_sel"]
    hdu_index = None if hs["kind"] == "none" else hs["value"]
    wcs_key = None if ks["kind"] == "none" else ks["value"]
    if route == "load":
        kw = {}
        if hdu_index is not None:
            kw["hdu_index"] = hdu_index
        if wcs_key is not None:
            kw["wcs_key"] = wcs_key
        inp = paths if (len(paths) > 1 or case.get("as_list", True)) else paths[0]
        return collection.load(inp, **kw)
    if route == "simple":
        kw = {}
        if hdu_index is not None:
            kw["hdu_index"] = hdu_index
        if wcs_key is not None:
            kw["wcs_key"] = wcs_key
        return collection.SimpleFitsCollection(paths, **kw)
    if route == "cli":
        parser = argparse.ArgumentParser()
        collection.CollectionLoader.add_arguments(parser)
        argv = []
        if hdu_index is not None:
            argv += ["--hdu-index", str(hdu_index) if hs["kind"] == "scalar" else ",".join(str(v) for v in hdu_index)]
        if wcs_key is not None:
            argv += ["--wcs-key", wcs_key if ks["kind"] == "scalar" else ",".join(wcs_key)]
        settings = parser.parse_args(argv)
        loader = collection.CollectionLoader.create_from_args(settings)
        return loader.load_paths(paths)
    if route == "cli_multi_tan":
        # `toasty tile-multi-tan --hdu-index N --wcs-key K FILES...` (scalars only); the tiling itself is replaced by a stub that keeps
        # the collection the command built
        from toasty import cli, multi_tan

        class CapturingProcessor(object):
            def __init__(self, coll):
                captured["coll"] = coll

            def compute_global_pixelization(self, builder):
                pass

            def tile(self, *a, **k):
                pass

        orig_proc = multi_tan.MultiTanProcessor
        multi_tan.MultiTanProcessor = CapturingProcessor
        try:
            argv = ["tile-multi-tan", "--outdir", os.path.join(os.path.dirname(paths[0]), "out-mt"), "--hdu-index", str(hdu_index)]
            if wcs_key is not None:
                argv += ["--wcs-key", wcs_key]
            import contextlib, io

            with contextlib.redirect_stdout(io.StringIO()):
                cli.entrypoint(argv + list(paths))
        finally:
            multi_tan.MultiTanProcessor = orig_proc
        return captured["coll"]
    if route == "tile_fits":
        import toasty
        from toasty import fits_tiler

        orig_tile = fits_tiler.FitsTiler.tile
        orig_large = fits_tiler.FitsTiler._fits_covers_large_area

        def fake_tile(self, *a, **k):
            captured["coll"] = self.coll
            self.builder = None
            return self

        fits_tiler.FitsTiler.tile = fake_tile
        fits_tiler.FitsTiler._fits_covers_large_area = lambda self: False
        try:
            kw = {}
            if hdu_index is not None:
                kw["hdu_index"] = hdu_index
            if wcs_key is not None:
                kw["wcs_key"] = wcs_key
            toasty.tile_fits(paths, out_dir=os.path.join(os.path.dirname(paths[0]), "out"), **kw)
        finally:
            fits_tiler.FitsTiler.tile = orig_tile
            fits_tiler.FitsTiler._fits_covers_large_area = orig_large
        return captured["coll"]
    raise KeyError(route)


def exec_case(case):
    exp = expected(case)
    with fresh_dir("c20-") as d:
        file_paths = build_files(d, case["files"])
        refs = case.get("path_refs") or list(range(len(file_paths)))
        paths = [file_paths[r] for r in refs]
        what = f"route {case['route']}, hdu selector {case['hdu_sel']}, key selector {case['key_sel']}"
        if case.get("before"):
            # an EARLIER invocation in the same process, with other selections, must not influence this one
            b = dict(case)
            b.update(case["before"])
            b.pop("before", None)
            with toasty_call("load", "earlier invocation " + what):
                earlier = build_collection(b, [file_paths[r] for r in (b.get("path_refs") or range(len(file_paths)))], {})
                try:
                    list(earlier.descriptions())
                except Exception:
                    pass  # the earlier invocation's own selection need not fit these files
            what += f" (after an earlier invocation with {case['before']})"
        with toasty_call("load", what):
            coll = build_collection(case, paths, {})
        if case.get("abandoned_scan"):
            # a first look at the collection that stops after its first entry (an early `break`, `next(iter(...))`)
            with toasty_call("descriptions", what + " (abandoned first scan)"):
                it = iter(coll.descriptions() if case["abandoned_scan"] == "descriptions" else coll.images())
                next(it, None)
                del it
            what += f" (after an abandoned scan of its {case['abandoned_scan']})"
        with toasty_call("descriptions", what):
            descs = list(coll.descriptions())
        with toasty_call("images", what):
            imgs = []
            for im in coll.images():
                a = np.asarray(im.asarray())
                imgs.append({"shape": tuple(a.shape), "fill": float(a.flat[0]), "uniform": bool((a == a.flat[0]).all()), "crval": tuple(float(v) for v in im.wcs.wcs.crval), "id": getattr(im, "collection_id", None)})
        with toasty_call("export_simple", what):
            exported = list(coll.export_simple())
        # consumers normalise descriptions in place (the tilers call ensure_negative_parity on them);
        # a second look at the same collection must still show the files' own HDUs and WCS
        with toasty_call("descriptions", what + " (second pass)"):
            for dsc in descs:
                try:
                    dsc.ensure_negative_parity()
                except Exception:
                    pass
            descs2 = list(coll.descriptions())
            imgs2 = list(coll.images())
        for i, (d2, im2) in enumerate(zip(descs2, imgs2)):
            h1 = d2.wcs.to_header().tostring()
            h2 = im2.wcs.to_header().tostring()
            if tuple(d2.shape) != tuple(np.asarray(im2.asarray()).shape) or h1 != h2:
                raise Violation("description-vs-image", f"{what}: on a second pass description {i} and image {i} differ (shape {tuple(d2.shape)} vs {tuple(np.asarray(im2.asarray()).shape)}; WCS headers {'equal' if h1 == h2 else 'differ'})")
        if len(descs) != len(paths) or len(imgs) != len(paths) or len(exported) != len(paths):
            raise Violation("count", f"{what}: {len(paths)} inputs but {len(descs)} descriptions, {len(imgs)} images, {len(exported)} exported entries")
        for i, e in enumerate(exp):
            dsc = descs[i]
            if tuple(dsc.shape) != e["shape"]:
                raise Violation("description", f"{what}: description {i} has shape {tuple(dsc.shape)}, the selected HDU {e['idx']} has {e['shape']}")
            dc = tuple(float(v) for v in dsc.wcs.wcs.crval)
            if not np.allclose(dc, e["crval"], atol=1e-9):
                raise Violation("description-wcs", f"{what}: description {i} has CRVAL {dc}, selected solution has {e['crval']}")
            im = imgs[i]
            if im["shape"] != e["shape"] or not im["uniform"] or im["fill"] != e["fill"]:
                raise Violation("image", f"{what}: image {i} has shape {im['shape']} fill {im['fill']}, the selected HDU {e['idx']} has shape {e['shape']} fill {e['fill']}")
            if not np.allclose(im["crval"], e["crval"], atol=1e-9):
                raise Violation("image-wcs", f"{what}: image {i} has CRVAL {im['crval']}, selected solution has {e['crval']}")
            if getattr(dsc, "collection_id", None) != paths[i] or im["id"] != paths[i]:
                raise Violation("order", f"{what}: item {i} is not input file {i}")
            ep = exported[i]
            if ep[0] != paths[i] or int(ep[1]) != e["idx"]:
                raise Violation("export", f"{what}: export_simple entry {i} = {ep}, expected ({paths[i]}, {e['idx']})")
    idxs = [e["idx"] for e in exp]
    refs_ = case.get("path_refs") or []
    extra_cls = []
    if len(set(refs_)) < len(refs_):
        extra_cls.append("repeated-path")
    sel_kinds = set(case["files"][r][e["idx"]]["kind"] for r, e in zip(refs_ or range(len(exp)), exp))
    extra_cls += sorted("selected:" + k for k in sel_kinds)
    cls = extra_cls + [case["route"], "hdu:" + case["hdu_sel"]["kind"], "key:" + case["key_sel"]["kind"], f"files{len(exp)}"]
    nt = len(exp) >= 2 and (len(set(idxs)) > 1 or (case["key_sel"]["kind"] == "list" and len(set(case["key_sel"]["value"])) > 1))
    return Outcome(classes=cls, nontrivial=nt)


@st.composite
def strat(draw, tier):
    nfiles = draw(st.integers(1, 5))
    uid = [0]
    files = []
    for fi in range(nfiles):
        n_ext = draw(st.integers(0, 4))
        hdus = []
        prim = draw(st.sampled_from(["empty", "empty", "image2d", "image1d", "row1d"]))
        kinds = [prim] + [draw(st.sampled_from(["image2d", "image2d", "table", "image1d", "empty", "comp2d", "cube", "row1d"])) for _ in range(n_ext)]
        if not any(k in IMAGE_KINDS for k in kinds):
            kinds.append(draw(st.sampled_from(["image2d", "image2d", "comp2d", "cube"])))
        for k in kinds:
            h = {"kind": k}
            if k in SELECTABLE:
                uid[0] += 1
                u = uid[0]
                if k == "cube":
                    h["nfreq"] = draw(st.sampled_from([1, 3]))
                    h["order"] = draw(st.sampled_from(["RDF", "FRD", "RFD"]))
                keys = [" "] + draw(st.sampled_from([[], [], ["A"], ["A", "B"], ["B", "C"], ["A", "B", "C"]]))
                h["shape"] = [3 + u, 40 - u] if k != "row1d" else [1, 40 - u]
                h["fill"] = u * 1.5 if k != "comp2d" else u * 3
                h["wcs"] = {key: [10.0 * u + 0.25 * j, -30.0 + u + 0.125 * j] for j, key in enumerate(keys)}
            hdus.append(h)
        files.append(hdus)
    # the input list may name the same file more than once
    refs = list(range(nfiles))
    if draw(st.integers(0, 3)) == 0:
        for _ in range(draw(st.integers(1, 2))):
            refs.insert(draw(st.integers(0, len(refs))), draw(st.integers(0, nfiles - 1)))
    all_files = files
    files = [all_files[r] for r in refs]  # per list position, for the selectors below
    # selectors
    img_idx = [[i for i, h in enumerate(f) if h["kind"] in SELECTABLE] for f in files]
    kind = draw(st.sampled_from(["none", "scalar", "list", "list"]))
    if kind == "scalar":
        common = set(img_idx[0])
        for ii in img_idx[1:]:
            common &= set(ii)
        if common:
            hdu_sel = {"kind": "scalar", "value": draw(st.sampled_from(sorted(common)))}
        else:
            kind = "list"
    if kind == "list":
        hdu_sel = {"kind": "list", "value": [draw(st.sampled_from(ii)) for ii in img_idx]}
    if kind == "none":
        hdu_sel = {"kind": "none"}
    case = {"files": all_files, "path_refs": refs, "hdu_sel": hdu_sel, "key_sel": {"kind": "none"}}
    sel_hdus = []
    for fi, f in enumerate(files):
        if hdu_sel["kind"] == "none":
            sel_hdus.append(f[first_image_hdu(f)])
        elif hdu_sel["kind"] == "scalar":
            sel_hdus.append(f[hdu_sel["value"]])
        else:
            sel_hdus.append(f[hdu_sel["value"][fi]])
    kk = draw(st.sampled_from(["none", "scalar", "list", "list"]))
    if kk == "scalar":
        common = set(sel_hdus[0]["wcs"])
        for h in sel_hdus[1:]:
            common &= set(h["wcs"])
        case["key_sel"] = {"kind": "scalar", "value": draw(st.sampled_from(sorted(common)))}
    elif kk == "list":
        case["key_sel"] = {"kind": "list", "value": [draw(st.sampled_from(sorted(h["wcs"]))) for h in sel_hdus]}
    route = draw(st.sampled_from(["load", "simple", "cli", "cli", "tile_fits"]))
    if route == "cli":
        # the command line cannot express a one-element list (it reads "2" as a scalar); the blank key of the primary
        # solution can be an entry of a longer list (`--wcs-key " ,A"`)
        if case["hdu_sel"]["kind"] == "list" and len(case["hdu_sel"]["value"]) == 1:
            case["hdu_sel"] = {"kind": "scalar", "value": case["hdu_sel"]["value"][0]}
        ks = case["key_sel"]
        if ks["kind"] == "list" and len(ks["value"]) == 1:
            ok = all(len(h["wcs"]) > 1 for h in sel_hdus) and len(sel_hdus) > 1
            if ok:
                case["key_sel"] = {"kind": "list", "value": [sorted(k for k in h["wcs"] if k != " ")[0] for h in sel_hdus]}
            else:
                case["key_sel"] = {"kind": "none"}
        if ks["kind"] == "scalar" and ks["value"] == " ":
            case["key_sel"] = {"kind": "none"}
    if case["hdu_sel"]["kind"] == "scalar" and case["key_sel"]["kind"] in ("none", "scalar") and draw(st.integers(0, 2)) == 0:
        route = "cli_multi_tan"  # the multi-TAN tiling command has its own --hdu-index / --wcs-key (one value for every file)
    case["route"] = route
    case["as_list"] = draw(st.booleans())
    if draw(st.integers(0, 2)) == 0:
        # an earlier invocation through the command-line route with its own selections
        kinds = [h for h in img_idx]
        before = {"route": "cli", "hdu_sel": {"kind": "none"}, "key_sel": {"kind": "none"}}
        if draw(st.booleans()):
            before["hdu_sel"] = {"kind": "list", "value": [draw(st.sampled_from(ii)) for ii in img_idx]} if len(img_idx) > 1 else {"kind": "scalar", "value": draw(st.sampled_from(img_idx[0]))}
        if draw(st.booleans()):
            before["key_sel"] = {"kind": "scalar", "value": draw(st.sampled_from(["A", "B"]))}
        case["before"] = before
    if case.get("route") != "tile_fits" and draw(st.integers(0, 4)) == 0:
        case["abandoned_scan"] = draw(st.sampled_from(["descriptions", "images"]))
    return case


PARTS = [
    Part("select_hdu_and_wcs", exec_case, strategy=strat, examples={"quick": 1600, "thorough": 40000}, shards={"quick": 16, "thorough": 16},
         budget_s={"quick": 60, "thorough": 1200}, describe="generated multi-extension collections x selectors x routes"),
]
