"""C19 — An error while processing any tile is reported, never swallowed by parallelism."""

import numpy as np
from hypothesis import strategies as st

from ..core import Part, Outcome, Violation, HarnessError
from .. import refpyramid as rp
from .. import gens, scen
from ..simsched import SimWorld, SimUnsupported
from .c03 import FakePio

PROPERTY_ID = "C19"
LEVEL = "exploration"
RULE = (
    "case = (stage in walk / visit_leaves / transform / multi-TAN tiling / multi-WCS tiling, item set, worker count k, schedule, ONE failing "
    "item chosen among the items the stage will process). The callback (or the tile I/O of the transform / the tile update "
    "of the multi-image tiler) raises for that item - or, for walk / leaf visits with k>=2, the worker handling it is killed by a signal. k=1 runs serially; k>=2 runs the real producer/worker code on Engine A "
    "with a generated schedule. Oracle: the public call must end by raising in the caller - returning normally is a "
    "violation (error swallowed), a structural hang is a violation (waits forever). Non-trivial: k>=2 and the failing item "
    "is not the first one the stage dispatches."
)
ASSUMPTIONS = [
    "Engine A: an exception escaping a worker's target prints a traceback and gives exit code 1, as multiprocessing.Process does",
    "exactly one item fails per case (the property's quantifier)",
]


class Boom(RuntimeError):
    pass


class BoomOS(OSError):
    pass


class BoomValue(ValueError):
    pass


class BoomKey(KeyError):
    pass


class BoomPlain(Exception):
    pass


EXC = {"runtime": Boom, "os": BoomOS, "value": BoomValue, "key": BoomKey, "plain": BoomPlain, "builtin-os": OSError, "builtin-value": ValueError, "empty": None}


class WorkerKilled(BaseException):
    """marker: the worker handling the failing item dies abruptly (signal), it does not raise"""


def exc_class(name):
    if name == "kill":
        def die(msg=""):
            import os, signal, threading

            if threading.current_thread() is not threading.main_thread():
                # a simulated process (a thread of Engine A): it ends with a negative exit code
                from ..simsched import SimKilled

                return SimKilled()
            os.kill(os.getpid(), signal.SIGKILL)  # a real worker process

        return die
    if name == "empty":
        import queue

        return queue.Empty
    return EXC.get(name, Boom)


def judge(desc, status, exc, hang):
    if status == "returned":
        raise Violation("error-swallowed", f"an item failed but the operation returned normally; case {desc}")
    if status == "hang":
        raise Violation("waits-forever", f"an item failed and the operation never returns: {hang}; case {desc}")
    if status == "raised":
        if isinstance(exc, SimUnsupported):
            raise exc
        return
    raise HarnessError(f"simulation inconclusive: {status}")


def run(fn, k, sched, make_target):
    """make_target(world) -> zero-arg callable to run. Returns (status, exc, hang, world)."""
    if k == 1:
        try:
            make_target(None)()
        except Exception as e:  # noqa
            return "raised", e, None, None
        return "returned", None, None, None
    w = SimWorld(sched)
    w, res = scen.run_sim(make_target(w), None, world=w)
    return res["status"], res["exc"], res["hang"], w


def exec_multi_tan(case, k, classes, desc):
    import os
    import warnings
    from toasty import collection, multi_tan
    from toasty.builder import Builder
    from toasty.pyramid import PyramidIO
    from ..core import fresh_dir
    from .. import mtgen

    E = exc_class(case.get("exc", "runtime"))
    with fresh_dir("c19mt-") as d:
        ind = os.path.join(d, "in")
        os.makedirs(ind)
        paths, exp, box = mtgen.write_inputs(case, ind)
        # how many tile updates does the whole job make?
        counter = {"n": 0, "fail_at": None}

        class CountingPio(PyramidIO):
            def __deepcopy__(self, memo):
                return self

            def update_image(self, pos, **kw):
                counter["n"] += 1
                if counter["n"] == counter["fail_at"]:
                    raise E(f"injected failure at tile update #{counter['n']} ({tuple(pos)})")
                return PyramidIO.update_image(self, pos, **kw)

        def prepare(sub):
            pio = CountingPio(os.path.join(d, sub), default_format=case["tile_format"])
            with warnings.catch_warnings():
                warnings.simplefilter("ignore")
                proc = multi_tan.MultiTanProcessor(collection.load(paths))
                proc.compute_global_pixelization(Builder(pio))
            return pio, proc

        pio, proc = prepare("count")
        with warnings.catch_warnings():
            warnings.simplefilter("ignore")
            proc.tile(pio, parallel=1)
        total = counter["n"]
        counter["n"] = 0
        counter["fail_at"] = 1 + case["fail_idx"] % total
        pio, proc = prepare("run")
        restore = None
        if case.get("fail_site") == "parity":
            # the failure is not in a tile update but in the per-image preparation that precedes it (the image's parity is
            # looked at for every input image, serially and in the workers alike)
            from toasty.image import Image

            n_img = len(paths)
            counter["fail_at"] = None
            pc = {"n": 0, "at": 1 + case["fail_idx"] % n_img}
            orig_gps = Image.get_parity_sign

            def get_parity_sign(self, _o=orig_gps):
                pc["n"] += 1
                if pc["n"] == pc["at"]:
                    raise E(f"injected failure while preparing input image #{pc['n']}")
                return _o(self)

            Image.get_parity_sign = get_parity_sign
            restore = lambda: setattr(Image, "get_parity_sign", orig_gps)
            classes.append("fails-in-image-preparation")

        if case.get("fail_site") == "load":
            # an input file disappears between the planning pass and the tiling pass: loading that image fails in the process that
            # hands the images out
            counter["fail_at"] = None
            os.unlink(paths[case["fail_idx"] % len(paths)])
            classes.append("fails-loading-an-input-image")

        def make_target(w):
            def go():
                with warnings.catch_warnings():
                    warnings.simplefilter("ignore")
                    proc.tile(pio, parallel=k, cli_progress=bool(case.get("progress")))

            return go

        try:
            status, exc, hang, w = run(None, k, case.get("sched"), make_target)
        finally:
            if restore:
                restore()
    desc["failing_update"] = counter["fail_at"]
    judge(desc, status, exc, hang)
    classes.append("inputs%d" % len(case["rects"]))
    return Outcome(classes=classes, nontrivial=k >= 2 and (counter["fail_at"] or 2) > 1, info={"failing_update": counter["fail_at"], "of": total})


def exec_multi_wcs(case, k, classes, desc):
    import os
    import warnings
    from toasty import collection, multi_wcs
    from toasty.builder import Builder
    from toasty.pyramid import PyramidIO
    from ..core import fresh_dir
    from .c03 import write_wcs_inputs, stub_reproject

    E = exc_class(case.get("exc", "runtime"))
    n = len(case["images"])
    fail_input = case["fail_idx"] % n
    with fresh_dir("c19mw-") as d:
        ind = os.path.join(d, "in")
        os.makedirs(ind)
        paths = write_wcs_inputs(case, ind)

        def failing_reproject(input_data, **kw):
            arr, _w = input_data
            if int(round(float(np.asarray(arr).flat[0]))) == fail_input + 1:
                raise E(f"injected reprojection failure for input {fail_input}")
            return stub_reproject(input_data, **kw)

        pio = PyramidIO(os.path.join(d, "run"), default_format="fits")
        with warnings.catch_warnings():
            warnings.simplefilter("ignore")
            coll = collection.load(paths)
            armed = []
            E2 = exc_class(case.get("exc", "runtime") if case.get("exc") != "kill" else "runtime")

            class FailingCollection(object):
                """the collection as given, except that (once armed) input `fail_input` cannot be loaded"""

                def images(self_):
                    for i, im in enumerate(coll.images()):
                        if armed and i == fail_input:
                            raise E2(f"injected failure while loading input {fail_input} in the dispatching process")
                        yield im

                def __getattr__(self_, name):
                    return getattr(coll, name)

            proc = multi_wcs.MultiWcsProcessor(FailingCollection() if case.get("site") == "dispatcher" else coll)
            try:
                proc.compute_global_pixelization(Builder(pio))
            except Exception:
                return Outcome(classes=classes + ["pixelization-refused"], nontrivial=False)

        reproj = failing_reproject
        if case.get("site") == "dispatcher":
            # the failure happens in the process that hands the work out: an input image cannot be loaded when its turn comes
            reproj = stub_reproject
            armed.append(1)

        def make_target(w):
            def go():
                with warnings.catch_warnings():
                    warnings.simplefilter("ignore")
                    proc.tile(pio, reproj, parallel=k, cli_progress=bool(case.get("progress")))

            return go

        status, exc, hang, w = run(None, k, case.get("sched"), make_target)
    desc["failing_input"] = fail_input
    judge(desc, status, exc, hang)
    classes.append("inputs%d" % n)
    if case.get("site") == "dispatcher":
        classes.append("failure-in-the-dispatching-process")
    return Outcome(classes=classes, nontrivial=k >= 2 and fail_input > 0, info={"failing_input": fail_input})


def exec_case(case):
    stage = case["stage"]
    k = case.get("k", 1)
    desc = {a: b for a, b in case.items() if a != "sched"}
    classes = [stage, f"k{k}", "exc:" + case.get("exc", "runtime")]
    E = exc_class(case.get("exc", "runtime"))
    if stage == "multi_tan":
        return exec_multi_tan(case, k, classes, desc)
    if stage == "multi_wcs":
        return exec_multi_wcs(case, k, classes, desc)
    if stage in ("walk", "leaves"):
        ref = scen.ref_of(case)
        order = [p for p in ref.order if p in (ref.ops if stage == "walk" else ref.leaves)]
        if not order:
            return Outcome(classes=classes + ["no-items"], nontrivial=False)
        fail = order[case["fail_idx"] % len(order)]

        def make_target(w):
            rec = scen.Recorder(w, fail_at=fail, fail_exc=E)
            if stage == "walk":
                return lambda: scen.make_pyramid(case).walk(rec.walk_cb, parallel=k, cli_progress=bool(case.get("progress")))
            return lambda: scen.make_pyramid(case).visit_leaves(rec.leaf_cb, parallel=k, cli_progress=bool(case.get("progress")))

        first = order[0]
        classes += [case["kind"], f"depth{case['depth']}"]
        if stage == "walk" and fail == (tuple(case["apex"]) if case.get("apex") else (0, 0, 0)):
            classes.append("fails-at-apex")
        if fail == order[-1]:
            classes.append("fails-at-last-item")
    else:
        from toasty import transform

        depth = case["depth"]
        order = list(rp.RefPyramid(depth).order)
        fail = order[case["fail_idx"] % len(order)]
        first = order[0]

        class FailingPio(FakePio):
            def read_image(self, pos, **kw):
                img = FakePio.read_image(self, pos, **kw)
                if tuple(pos) == fail:
                    raise E(f"injected I/O failure at {fail}")
                return img

        which = case.get("which", "u8")

        def make_target(w):
            pio = FailingPio(w, [], which)
            kw = {"pio_out": FakePio(w, [], which)} if case.get("sep_out") else {}
            if which == "f16x3":
                return lambda: transform.f16x3_to_rgb(pio, depth, parallel=k, cli_progress=bool(case.get("progress")), **kw)
            return lambda: transform.u8_to_rgb(pio, depth, parallel=k, cli_progress=bool(case.get("progress")), **kw)

        classes += [which] + (["separate-output-pyramid"] if case.get("sep_out") else [])

        classes += [f"depth{depth}"]
    status, exc, hang, w = run(None, k, case.get("sched"), make_target)
    desc["failing_item"] = list(fail)
    judge(desc, status, exc, hang)
    if w is not None and w.timeouts_fired:
        classes.append("timeout-fired")
    nt = k >= 2 and fail != first
    return Outcome(classes=classes, nontrivial=nt, info={"failing_item": list(fail), "raised": type(exc).__name__})


def exec_real(case):
    """one failing item on REAL multiprocessing: the call must raise, not return, not hang"""
    import os
    import multiprocessing as mp
    from ..core import fresh_dir
    from ..realmp import FileRecorder, watchdog, WatchdogExpired, reap_children

    stage = case["stage"]
    k = case["k"]
    ref = scen.ref_of(case)
    order = [p for p in ref.order if p in (ref.ops if stage == "walk" else ref.leaves)]
    if not order:
        return Outcome(classes=["realmp", stage, "no-items"], nontrivial=False)
    fail = order[case["fail_idx"] % len(order)]
    E = exc_class(case.get("exc", "runtime"))
    desc = dict(case)
    desc["failing_item"] = list(fail)
    import signal

    # every case starts from the default disposition of SIGCHLD (nothing an earlier case did to the process carries over)
    signal.signal(signal.SIGCHLD, signal.SIG_DFL)
    with fresh_dir("c19r-") as d:
        rec = FileRecorder(os.path.join(d, "log"), fail_at=fail, fail_exc=E)
        status, exc, hang = "returned", None, None
        devnull = os.open(os.devnull, os.O_WRONLY)
        saved = os.dup(2)
        os.dup2(devnull, 2)  # the failing worker prints its traceback
        try:
            if case.get("prior"):
                # an EARLIER parallel walk in this process failed too, and its caller handled the error: the operation under
                # test must report its own failure all the same
                from toasty.pyramid import Pyramid

                prec = FileRecorder(os.path.join(d, "prior-log"), fail_at=(1, 0, 0), fail_exc=RuntimeError)
                try:
                    with watchdog(40):
                        Pyramid.new_generic(2).walk(prec.walk_cb, parallel=2)
                except WatchdogExpired:
                    pass
                except Exception:  # noqa
                    pass
                reap_children(1)
            with watchdog(40):
                if stage == "walk":
                    scen.make_pyramid(case).walk(rec.walk_cb, parallel=k)
                else:
                    scen.make_pyramid(case).visit_leaves(rec.leaf_cb, parallel=k)
        except WatchdogExpired:
            if any(c.is_alive() for c in mp.active_children()):
                status = "inconclusive"  # a wall clock alone is never a verdict (Engine A decides hangs structurally)
            else:
                status, hang = "hang", "still waiting 40 s after the item failed although every worker process has exited (real multiprocessing)"
        except Exception as e:  # noqa
            status, exc = "raised", e
        finally:
            os.dup2(saved, 2)
            os.close(saved)
            os.close(devnull)
            reap_children(1)
    if status == "inconclusive":
        return Outcome(classes=["realmp", "watchdog-inconclusive"], nontrivial=False)
    judge(desc, status, exc, hang)
    return Outcome(classes=["realmp", stage, f"k{k}", "exc:" + case.get("exc", "runtime")] + (["after-an-earlier-failed-walk"] if case.get("prior") else []), nontrivial=fail != order[0], info={"raised": type(exc).__name__})


@st.composite
def strat_real(draw, tier):
    case = draw(scen.pyramid_cases(3, with_k=False, min_depth=1))
    if case.get("apex") is not None and case["apex"][0] > 1:
        case["apex"] = [1, case["apex"][1] % 2, case["apex"][2] % 2]
    case["k"] = draw(st.sampled_from([2, 3, 4]))
    case["stage"] = draw(st.sampled_from(["walk", "leaves"]))
    case["fail_idx"] = draw(st.integers(0, 2000))
    case["exc"] = draw(st.sampled_from(["runtime", "os", "value", "key", "kill"]))
    if draw(st.booleans()):
        case["prior"] = True
        if draw(st.booleans()):
            case["stage"] = "leaves"
    return case


@st.composite
def strat(draw, tier):
    stage = draw(st.sampled_from(["walk", "walk", "leaves", "leaves", "transform", "transform", "multi_tan", "multi_wcs"]))
    if stage == "multi_wcs":
        from .c03 import strat_multi_wcs

        case = draw(strat_multi_wcs(tier))
        if draw(st.integers(0, 2)) == 0:
            case["site"] = "dispatcher"
        case["stage"] = stage
        case["k"] = draw(st.sampled_from([1, 2, 2, 3]))
        if case["k"] == 1:
            case.pop("sched", None)
    elif stage == "multi_tan":
        from .. import mtgen

        case = draw(mtgen.mosaic_cases(tier, max_size=200, max_inputs=10))
        case["stage"] = stage
        case["k"] = draw(st.sampled_from([1, 2, 2, 2, 3]))
        if case["k"] > 1:
            case["sched"] = draw(scen.schedules(max_size=100))
        if stage == "multi_tan" and draw(st.integers(0, 2)) == 0:
            case["fail_site"] = draw(st.sampled_from(["parity", "load"]))
    elif stage == "transform":
        k = draw(st.sampled_from([1, 2, 2, 3, 4, 8]))
        case = {"stage": stage, "depth": draw(st.integers(0, 2 if tier == "quick" else 3)), "k": k}
        if draw(st.integers(0, 2)) == 0:
            case["which"] = "f16x3"
        if draw(st.integers(0, 3)) == 0:
            case["sep_out"] = True
        if k > 1:
            case["sched"] = draw(scen.schedules())
    else:
        case = draw(scen.pyramid_cases(3 if tier == "quick" else 5, deep_one_in=12))
        case["stage"] = stage
    if draw(st.integers(0, 3)) == 0:
        case["progress"] = True  # the command-line progress display switched on (its output is captured: not a terminal)
    case["fail_idx"] = draw(st.one_of(st.integers(0, 2000), st.integers(0, 2)))
    case["exc"] = draw(st.sampled_from(["runtime", "runtime", "os", "value", "key", "plain", "builtin-os", "builtin-value", "empty", "kill"]))
    if case["exc"] == "kill" and (case.get("k", 1) == 1 or case["stage"] not in ("walk", "leaves")):
        case["exc"] = "runtime"  # killing the only (serial) process is not a meaningful fault
    return case


PARTS = [
    Part(
        "fail_one_item_realmp",
        exec_real,
        strategy=strat_real,
        examples={"quick": 48, "thorough": 400},
        shards={"quick": 8, "thorough": 16},
        budget_s={"quick": 70, "thorough": 1500},
        shrink=False,
        engine="R (real multiprocessing)",
        describe="walk / visit_leaves with one failing item on real multiprocessing with 2-4 workers (a hang is detected by a 40 s watchdog)",
    ),
    Part(
        "fail_one_item_sim",
        exec_case,
        strategy=strat,
        examples={"quick": 3000, "thorough": 300000},
        shards={"quick": 16, "thorough": 16},
        budget_s={"quick": 60, "thorough": 1200},
        engine="A / serial for k=1",
        describe="walk, visit_leaves, u8_to_rgb and multi-image tiling with exactly one failing item (exception class generated: RuntimeError, OSError, ValueError, KeyError, queue.Empty, ...) x k x schedules",
    ),
]


def extra_coverage(cov_parts):
    return {"traces_validated_against_impl": cov_parts.get("fail_one_item_realmp", {}).get("evaluations", 0)}
