"""C16 — Flipping image parity reverses rows but moves no pixel on the sky."""

import math
import warnings

import numpy as np
from hypothesis import strategies as st

from ..core import Part, Outcome, Violation, toasty_call
from .. import wcsgen
from .. import reftoast as rt

PROPERTY_ID = "C16"
LEVEL = "exploration"
RULE = (
    "case = (linear celestial WCS: projection in TAN/SIN/ARC/STG/CAR, CRVAL anywhere, scale 1e-4..0.5 deg/px, axis ratio, any "
    "rotation incl. exact multiples of 90 degrees, optional skew, both starting parities, reference pixel inside / centred / "
    "far outside, CD or CDELT+PC spelling; image size 1..200 per axis; object kind: array-backed Image (scalar or colour), "
    "PIL-backed Image with or without its array already cached, data-less ImageDescription with 2-D or (h,w,planes) shape; "
    "a sixth of the WCS list the latitude axis first; operation sequence: 1-6 of flip / ensure_negative_parity in any order, in a sixth of the cases plus one flip that meets a "
    "transient failure inside astropy (the object must afterwards be as before or completely flipped); a third of the cases handle 1-3 other objects (other WCS, "
    "other parity) first, each created, queried, operated on and released, in the same process). Oracle: parity sign negated by a flip; rows "
    "reversed and otherwise identical; for sampled pixel coordinates (corners, centre, non-integers, generated) "
    "world(x,y) before = world(x,h-1-y) after, compared as unit vectors (1e-10 rad); ensure_negative_parity gives -1 and is "
    "idempotent (second call changes nothing). Non-trivial: rotation not a multiple of 90 degrees, or non-zero skew, or an "
    "exact 90-degree rotation (zero diagonal)."
)
ASSUMPTIONS = ["degenerate matrices are excluded by construction (scale>=5e-10 deg, |skew|<=25 deg)", "pixels whose world coordinates are undefined before the flip (outside the projection's domain) are skipped"]


def world(wcs, xs, ys):
    with warnings.catch_warnings():
        warnings.simplefilter("ignore")
        w = wcs.wcs_pix2world(np.column_stack([xs, ys]), 0)
    ilon, ilat = (1, 0) if wcs.wcs.lat == 0 else (0, 1)
    return rt.lonlat_to_vec(np.radians(w[:, ilon]), np.radians(w[:, ilat])), np.isfinite(w).all(axis=1)


class TransientFault(MemoryError):
    pass


def check_failed_flip(obj, arr0, case, what, where):
    """one transient failure (out of memory) inside astropy while flip_parity runs - in the first serialisation of the WCS or in the
    construction of a WCS object. The call may raise or cope; afterwards every pixel value must still be where it was on the
    sky: the object is either as it was, or completely flipped - never rows reversed under the old WCS or the reverse"""
    from astropy.wcs import WCS

    h = case["height"]
    xs, ys = sample_pixels(case)
    p0 = obj.get_parity_sign()
    v0, ok0 = world(obj.wcs, xs, ys)
    armed = [True]
    orig_to_header, orig_init = WCS.to_header, WCS.__init__

    def to_header(self, *a, **k):
        if armed[0] and where == "to_header":
            armed[0] = False
            raise TransientFault("injected: out of memory while serialising the WCS")
        return orig_to_header(self, *a, **k)

    def init(self, *a, **k):
        if armed[0] and where == "new_wcs":
            armed[0] = False
            raise TransientFault("injected: out of memory while building a WCS object")
        return orig_init(self, *a, **k)

    WCS.to_header, WCS.__init__ = to_header, init
    try:
        try:
            obj.flip_parity()
            failed = False
        except TransientFault:
            failed = True
    finally:
        WCS.to_header, WCS.__init__ = orig_to_header, orig_init
    with toasty_call("flip", what + " (after a flip that met a transient failure)"):
        p1 = obj.get_parity_sign()
        a1 = None if arr0 is None else np.asarray(obj.asarray())
    if arr0 is not None and a1.shape == arr0.shape and np.array_equal(a1, arr0) and not (h > 1 and np.array_equal(a1, arr0[::-1])):
        rows = "unchanged"
    elif arr0 is not None and a1.shape == arr0.shape and np.array_equal(a1, arr0[::-1]) and not np.array_equal(a1, arr0):
        rows = "reversed"
    elif arr0 is None or (a1.shape == arr0.shape and np.array_equal(a1, arr0)):
        rows = "either"  # no data, or rows that read the same both ways
    else:
        raise Violation("rows-reversed", f"{what}: after a flip that met a transient failure the pixel rows are neither as before nor reversed")
    for state, ys1 in (("unchanged", ys), ("reversed", h - 1 - ys)):
        if rows not in (state, "either"):
            continue
        v1, ok1 = world(obj.wcs, xs, ys1)
        good = (not ok0.any()) or (ok1[ok0].all() and rt.ang_dist(v0[ok0], v1[ok0]).max() <= 1e-10)
        if good and p1 == (p0 if state == "unchanged" else -p0):
            return (arr0 if state == "unchanged" or arr0 is None else arr0[::-1].copy()), failed
    raise Violation(
        "sky-position",
        f"{what}: a flip_parity call met one transient failure ({where}) and {'raised' if failed else 'returned'}; afterwards the pixel rows are {rows} but the WCS (parity {p0} -> {p1}) does not go with them: pixel values have moved on the sky; size {case['width']}x{h}, wcs {case['wcs']}",
    )


def make_object(case):
    from toasty.image import Image, ImageDescription, ImageMode
    from PIL import Image as PILImage

    w, h = case["width"], case["height"]
    wcs = wcsgen.wcs_of(case["wcs"], w, h)
    kind = case["kind"]
    rows = np.arange(h).reshape(h, 1)
    cols = np.arange(w).reshape(1, w)
    if kind == "array_f32":
        arr = (rows * 1000 + cols).astype(np.float32)
        return Image.from_array(arr, wcs=wcs), arr.copy()
    if kind == "array_rgb":
        arr = np.stack([(rows + 0 * cols) % 256, (cols + 0 * rows) % 256, (rows + cols) % 256], axis=-1).astype(np.uint8)
        return Image.from_array(arr, wcs=wcs), arr.copy()
    if kind in ("pil_rgb", "pil_rgb_cached", "pil_rgba_cached"):
        planes = 4 if "rgba" in kind else 3
        arr = np.stack([(rows + 0 * cols) % 256, (cols + 0 * rows) % 256, (rows + cols) % 256, 255 - (rows + 0 * cols) % 200][:planes], axis=-1).astype(np.uint8)
        img = Image.from_pil(PILImage.fromarray(arr), wcs=wcs)
        if "cached" in kind:
            img.asarray()
            img.dtype
        return img, arr.copy()
    if kind == "desc_2d":
        return ImageDescription(mode=ImageMode.F32, shape=(h, w), wcs=wcs), None
    if kind == "desc_rgb":
        return ImageDescription(mode=ImageMode.RGB, shape=(h, w, 3), wcs=wcs), None
    raise KeyError(kind)


def sample_pixels(case):
    w, h = case["width"], case["height"]
    xs = [0, w - 1, 0, w - 1, (w - 1) / 2, -0.5, w - 0.5, 0.25]
    ys = [0, 0, h - 1, h - 1, (h - 1) / 2, -0.5, h - 0.5, h - 1.25]
    for u, v in case["pixels"]:
        xs.append(u * (w - 1))
        ys.append(v * (h - 1))
    return np.array(xs, dtype=float), np.array(ys, dtype=float)


def check_flip(obj, arr0, case, what):
    h = case["height"]
    xs, ys = sample_pixels(case)
    p0 = obj.get_parity_sign()
    w0 = obj.wcs
    v0, ok0 = world(w0, xs, ys)
    with toasty_call("flip", what):
        ret = obj.flip_parity()
    if ret is not obj:
        raise Violation("flip", f"{what}: flip_parity did not return self")
    p1 = obj.get_parity_sign()
    if p1 != -p0 or p1 not in (1, -1):
        raise Violation("parity-negated", f"{what}: parity {p0} before the flip, {p1} after; wcs {case['wcs']}")
    v1, ok1 = world(obj.wcs, xs, h - 1 - ys)
    ok = ok0
    if ok.any():
        if not ok1[ok].all():
            raise Violation("sky-position", f"{what}: a pixel with defined sky position has none after the flip")
        d = rt.ang_dist(v0[ok], v1[ok])
        if d.max() > 1e-10:
            i = int(np.nonzero(ok)[0][d.argmax()])
            scale = math.radians(case["wcs"]["scale"])
            raise Violation(
                "sky-position",
                f"{what}: pixel (x={xs[i]}, y={ys[i]}) before the flip and pixel (x={xs[i]}, y={h-1-ys[i]}) after it are {d.max():.3g} rad apart (~{d.max()/scale:.3g} pixels); size {case['width']}x{h}, wcs {case['wcs']}",
            )
    if arr0 is not None:
        a1 = np.asarray(obj.asarray())
        if a1.shape != arr0.shape or not np.array_equal(a1, arr0[::-1]):
            same = a1.shape == arr0.shape and np.array_equal(a1, arr0)
            raise Violation("rows-reversed", f"{what}: after the flip the pixel rows are {'unchanged' if same else 'neither reversed nor unchanged'} ({case['kind']})")
        return arr0[::-1].copy()
    return None


def exec_case(case):
    """a case is a history: 0-3 earlier objects (each created, queried, operated on and released) and then the main one;
    every object is judged on its own"""
    n_before = 0
    for k, sub in enumerate(case.get("before", [])):
        try:
            exec_one(sub)
        except Violation as v:
            raise Violation(v.clause, f"object #{k + 1} of {len(case['before']) + 1} handled one after another in one process: {v.msg}")
        n_before += 1
    try:
        out = exec_one(case)
    except Violation as v:
        if n_before:
            raise Violation(v.clause, f"object #{n_before + 1} of {n_before + 1} handled one after another in one process: {v.msg}")
        raise
    if n_before:
        out.classes.append("after-other-objects")
        ps = [b["wcs"]["parity"] for b in case["before"]] + [case["wcs"]["parity"]]
        if len(set(ps)) > 1:
            out.classes.append("after-objects-of-other-parity")
    out.count = n_before + 1
    return out


def exec_one(case):
    obj, arr = make_object(case)
    what = f"{type(obj).__name__}({case['kind']})"
    exp_p = wcsgen.expected_parity(case["wcs"])
    if case.get("companion"):
        from toasty.image import ImageDescription, ImageMode

        xs, ys = sample_pixels(case)
        v0, ok0 = world(obj.wcs, xs, ys)
        p_own = obj.get_parity_sign()
        comp = ImageDescription(mode=ImageMode.F32, shape=(case["height"], case["width"]), wcs=obj.wcs)
        with toasty_call("flip", "flipping a data-less description built on the same WCS object"):
            for op in case["companion"].split("+"):
                comp.flip_parity() if op == "flip" else comp.ensure_negative_parity()
        v1, ok1 = world(obj.wcs, xs, ys)
        if obj.get_parity_sign() != p_own or not np.array_equal(ok0, ok1) or (ok0.any() and rt.ang_dist(v0[ok0], v1[ok0]).max() > 1e-12):
            raise Violation("sky-position", f"{what}: flipping a description that was built on this object's WCS changed this object's own WCS (parity now {obj.get_parity_sign()}, was {p_own}); its pixels moved on the sky although its rows were not reversed")
    with toasty_call("parity"):
        p = obj.get_parity_sign()
    if p != exp_p and not case["wcs"].get("latfirst"):
        # (with the latitude axis first the sign of the stored matrix's determinant is the opposite one; the statement only speaks of
        # the sign being negated by a flip and of -1 after ensure_negative_parity, so the absolute sign is not judged there)
        raise Violation("parity-sign", f"{what}: parity sign {p}, CD determinant says {exp_p}; wcs {case['wcs']}")
    for op in case["ops"]:
        if op == "flip":
            arr = check_flip(obj, arr, case, what)
        elif op.startswith("failflip"):
            arr, _ = check_failed_flip(obj, arr, case, what, op.split(":")[1])
        else:
            xs, ys = sample_pixels(case)
            before_p = obj.get_parity_sign()
            v0, ok0 = world(obj.wcs, xs, ys)
            hdr0 = obj.wcs.to_header().tostring()
            with toasty_call("ensure", what):
                ret = obj.ensure_negative_parity()
            if ret is not obj:
                raise Violation("ensure", f"{what}: ensure_negative_parity did not return self")
            if obj.get_parity_sign() != -1:
                raise Violation("ensure", f"{what}: parity {obj.get_parity_sign()} after ensure_negative_parity")
            h = case["height"]
            if before_p == -1:
                # must be a no-op
                v1, ok1 = world(obj.wcs, xs, ys)
                if obj.wcs.to_header().tostring() != hdr0 or (ok0.any() and rt.ang_dist(v0[ok0], v1[ok0]).max() > 1e-12):
                    raise Violation("ensure-idempotent", f"{what}: ensure_negative_parity changed an image that already had negative parity")
                if arr is not None and not np.array_equal(np.asarray(obj.asarray()), arr):
                    raise Violation("ensure-idempotent", f"{what}: ensure_negative_parity changed the pixels of an image that already had negative parity")
            else:
                v1, ok1 = world(obj.wcs, xs, h - 1 - ys)
                if ok0.any():
                    d = rt.ang_dist(v0[ok0], v1[ok0])
                    if d.max() > 1e-10:
                        raise Violation("sky-position", f"{what}: ensure_negative_parity moved a pixel by {d.max():.3g} rad; wcs {case['wcs']}")
                if arr is not None:
                    a1 = np.asarray(obj.asarray())
                    if not np.array_equal(a1, arr[::-1]):
                        raise Violation("rows-reversed", f"{what}: ensure_negative_parity flipped the WCS but did not reverse the rows ({case['kind']})")
                    arr = arr[::-1].copy()
    s = case["wcs"]
    cls = [case["kind"], s["proj"], s["spelling"], "parity%+d" % s["parity"], s["crpix_mode"], "+".join(o.split(":")[0] for o in case["ops"]) if len(case["ops"]) <= 3 else f"{len(case['ops'])}-ops"]
    if s.get("latfirst"):
        cls.append("latitude-axis-first")
    if any(o.startswith("failflip") for o in case["ops"]):
        cls.append("flip-with-transient-failure")
    if case["ops"].count("flip") >= 3:
        cls.append("three-or-more-flips")
    if s.get("lonpole") is not None:
        cls.append("explicit-lonpole")
    if case.get("companion"):
        cls.append("companion-on-shared-wcs")
    right = s["rot"] in (90.0, -90.0, 270.0)
    if right:
        cls.append("exact-90deg")
    if s["skew"]:
        cls.append("skew")
    nt = (s["rot"] % 90 != 0) or s["skew"] != 0 or right
    return Outcome(classes=cls, nontrivial=nt)


@st.composite
def strat(draw, tier):
    kind = draw(st.sampled_from(["array_f32", "array_rgb", "pil_rgb", "pil_rgb_cached", "pil_rgba_cached", "desc_2d", "desc_rgb"]))
    size = st.one_of(st.integers(1, 200), st.sampled_from([1, 2, 3, 199, 200]))
    ops = draw(st.one_of(
        st.sampled_from([["flip"], ["flip", "flip"], ["ensure"], ["ensure", "ensure"], ["flip", "ensure", "ensure"], ["ensure", "flip"]]),
        st.lists(st.sampled_from(["flip", "flip", "ensure"]), min_size=1, max_size=6)))
    case = {
        "kind": kind, "width": draw(size), "height": draw(size), "wcs": draw(wcsgen.wcs_specs()), "ops": ops,
        "pixels": draw(st.lists(st.tuples(st.floats(-0.2, 1.2), st.floats(-0.2, 1.2)), max_size=4)),
    }
    if case["wcs"]["proj"] in ("TAN", "SIN", "ARC", "STG") and draw(st.integers(0, 5)) == 0:
        # (zenithal projections: any native longitude of the pole is a valid rotation about the reference point)
        case["wcs"]["lonpole"] = draw(st.sampled_from([0.0, 135.0, 90.0, 180.0, -45.0, 10.5]))
    if draw(st.integers(0, 5)) == 0:
        # the WCS remembers no image size, or the size of another image
        case["wcs"]["naxis"] = draw(st.sampled_from(["none", [case["width"] + draw(st.integers(1, 300)), case["height"] + draw(st.integers(1, 300))], [max(1, case["width"] // 2), max(1, case["height"] // 3)]]))
    if draw(st.integers(0, 6)) == 0:
        # very fine pixel scales (VLBI maps): down to a few micro-arcseconds per pixel
        case["wcs"]["scale"] = 10 ** draw(st.floats(-9.3, -4.0))
    if draw(st.integers(0, 5)) == 0:
        case["wcs"]["latfirst"] = True  # CTYPE1 = DEC--xxx, CTYPE2 = RA---xxx
    if draw(st.integers(0, 5)) == 0:
        # one flip attempt of the history meets a transient failure inside astropy
        ops = list(case["ops"])
        ops.insert(draw(st.integers(0, len(ops))), "failflip:" + draw(st.sampled_from(["to_header", "new_wcs"])))
        case["ops"] = ops
    if draw(st.integers(0, 4)) == 0:
        # another object that shares this one's WCS object is flipped first: this one must not notice
        case["companion"] = draw(st.sampled_from(["flip", "ensure", "flip+flip"]))
    if draw(st.integers(0, 2)) == 0:
        before = []
        for _ in range(draw(st.integers(1, 3))):
            sub = {"kind": draw(st.sampled_from([kind, kind, "array_f32", "desc_2d"])), "width": draw(st.integers(1, 40)), "height": draw(st.integers(1, 40)),
                   "wcs": draw(wcsgen.wcs_specs()), "ops": draw(st.lists(st.sampled_from(["flip", "ensure"]), max_size=2)), "pixels": []}
            before.append(sub)
        case["before"] = before
    return case


PARTS = [
    Part("flip_parity", exec_case, strategy=strat, examples={"quick": 6000, "thorough": 200000}, shards={"quick": 16, "thorough": 16},
         budget_s={"quick": 60, "thorough": 1200}, describe="generated WCS x object kinds x operation sequences"),
]
