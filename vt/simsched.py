"""Engine A: a deterministic, in-process simulation of the multiprocessing
primitives toasty's parallel stages use (Queue, Event, Process), with a scheduler
driven by a generated choice sequence.

Simulated processes are real threads, but exactly one of them (or the scheduler)
runs at any time: a process runs from one *yield point* (a primitive operation)
to the next and then parks. Queue feeder threads and time-outs of blocking
operations are separately schedulable transitions. Non-termination is detected
structurally (dead-lock, or a quiescent fix-point in which only time-outs can
fire), never by a wall clock.

The real, unmodified toasty dispatcher and worker functions run on top of this
(attributes of the ``multiprocessing`` module are replaced for the duration of a
case).
"""

import collections
import copy
import io
import pickle
import queue as _pyqueue
import sys
import threading
import traceback
import warnings
from contextlib import contextmanager


class SimKilled(BaseException):
    """Raised inside a simulated process when the run is over (or it is terminated)."""


class SimUnsupported(Exception):
    """toasty reached a multiprocessing facility the simulator does not model."""


CATEGORIES = ("timeout", "feeder", "main", "worker")

POLICIES = [
    ["main", "worker", "feeder", "timeout"],  # feeder late, time-outs last
    ["worker", "main", "feeder", "timeout"],
    ["feeder", "main", "worker", "timeout"],
    ["timeout", "main", "worker", "feeder"],  # time-outs whenever enabled, feeder last
    ["timeout", "worker", "feeder", "main"],
    ["worker", "feeder", "main", "timeout"],
    ["worker", "timeout", "main", "feeder"],
    ["main", "timeout", "worker", "feeder"],
]


class SimProc(object):
    def __init__(self, world, target, args=(), kwargs=None, name=None):
        self.world = world
        self.target = target
        self.args = tuple(args)
        self.kwargs = dict(kwargs or {})
        self.pid = len(world.procs)
        self.name = name or f"SimProcess-{self.pid}"
        self.daemon = False
        self.thread = None
        self.resume = threading.Semaphore(0)
        self.resume_value = None
        self.pending = None
        self.started = False
        self.finished = False
        self.killed = False
        self.exitcode = None
        self.exc = None
        self.result = None
        self.buffers = {}  # queue -> deque of objects not yet flushed by "its" feeder

    @property
    def exited(self):
        return self.finished and not any(self.buffers.values())

    @property
    def live(self):
        return self.started and not self.finished


class SimQueue(object):
    def __init__(self, world, maxsize=0):
        self.world = world
        self.qid = len(world.queues)
        world.queues.append(self)
        self.maxsize = maxsize if maxsize and maxsize > 0 else 0
        self.sem = self.maxsize if self.maxsize else None  # free slots (None = unbounded)
        self.pipe = collections.deque()  # pickled items
        self.closed_by = set()
        self.dropped = []

    def __deepcopy__(self, memo):
        return self

    def __reduce__(self):
        raise pickle.PicklingError("SimQueue objects are inherited, not pickled")

    # -- API -----------------------------------------------------------------
    def put(self, obj, block=True, timeout=None):
        w = self.world
        p = w._me()
        if p.pid in self.closed_by:
            raise ValueError(f"Queue {self!r} is closed")
        if self.sem is None:
            w._yield(("nb", f"put q{self.qid}"))
        elif not block:
            w._yield(("nb", f"put-nowait q{self.qid}"))
            if self.sem <= 0:
                raise _pyqueue.Full()
        else:
            r = w._yield(("put", self, timeout))
            if r == "timeout":
                raise _pyqueue.Full()
        if self.sem is not None:
            self.sem -= 1
        p.buffers.setdefault(self, collections.deque()).append(obj)
        w._log(p, "put", self.qid)

    def get(self, block=True, timeout=None):
        w = self.world
        p = w._me()
        if p.pid in self.closed_by:
            raise ValueError(f"Queue {self!r} is closed")
        if not block:
            w._yield(("nb", f"get-nowait q{self.qid}"))
            if not self.pipe:
                raise _pyqueue.Empty()
        else:
            r = w._yield(("get", self, timeout))
            if r == "timeout":
                w._log(p, "get-timeout", self.qid)
                raise _pyqueue.Empty()
        data = self.pipe.popleft()
        if self.sem is not None:
            self.sem += 1
        w._log(p, "get", self.qid)
        return pickle.loads(data)

    def put_nowait(self, obj):
        return self.put(obj, False)

    def get_nowait(self):
        return self.get(False)

    def qsize(self):
        w = self.world
        w._yield(("ro", "qsize"))
        return len(self.pipe) + sum(len(p.buffers.get(self, ())) for p in w.procs)

    def empty(self):
        self.world._yield(("ro", "empty"))
        return not self.pipe

    def full(self):
        self.world._yield(("ro", "full"))
        return self.sem is not None and self.sem <= 0

    def close(self):
        w = self.world
        p = w._me()
        w._yield(("nb", f"close q{self.qid}"))
        self.closed_by.add(p.pid)

    def join_thread(self):
        w = self.world
        p = w._me()
        assert p.pid in self.closed_by, "join_thread() before close()"
        w._yield(("join_thread", self))
        w._log(p, "join_thread", self.qid)

    def cancel_join_thread(self):
        raise SimUnsupported("Queue.cancel_join_thread")


class SimEvent(object):
    def __init__(self, world):
        self.world = world
        self.flag = False

    def __deepcopy__(self, memo):
        return self

    def set(self):
        w = self.world
        w._yield(("nb", "event.set"))
        self.flag = True
        w._log(w._me(), "event.set", None)

    def clear(self):
        self.world._yield(("nb", "event.clear"))
        self.flag = False

    def is_set(self):
        self.world._yield(("ro", "event.is_set"))
        return self.flag

    def wait(self, timeout=None):
        r = self.world._yield(("wait", self, timeout))
        return r != "timeout"


class SimProcessHandle(object):
    """What ``mp.Process(...)`` returns inside the simulation."""

    def __init__(self, world, group=None, target=None, name=None, args=(), kwargs=None, daemon=None):
        self.world = world
        self._target = target
        self._args = args
        self._kwargs = kwargs or {}
        self._name = name
        self.daemon = bool(daemon)
        self._proc = None

    def __deepcopy__(self, memo):
        return self

    def start(self):
        w = self.world
        if self._proc is not None:
            raise AssertionError("cannot start a process twice")
        w._yield(("nb", "start"))
        # fork semantics: the child works on a copy of the parent's objects as
        # of now (queues/events are shared, harness recorders opt out of copying)
        args, kwargs = self._args, self._kwargs
        try:
            args, kwargs = copy.deepcopy((self._args, self._kwargs))
        except Exception:
            w.notes.add("process arguments could not be copied (fork emulation); shared instead")
        proc = SimProc(w, self._target, args, kwargs, self._name)
        proc.daemon = self.daemon
        proc.started = True
        proc.pending = ("begin",)
        w.procs.append(proc)
        self._proc = proc
        proc.parent_proc = w._me()
        w.__dict__.setdefault("handles", []).append(self)
        w._log(w._me(), "start", proc.pid)

    def join(self, timeout=None):
        if self._proc is None:
            raise AssertionError("can only join a started process")
        self.world._yield(("join", self._proc, timeout))

    def is_alive(self):
        self.world._yield(("ro", "is_alive"))
        return self._proc is not None and not self._proc.exited

    @property
    def exitcode(self):
        self.world._yield(("ro", "exitcode"))
        if self._proc is None or not self._proc.exited:
            return None
        return self._proc.exitcode

    @property
    def pid(self):
        return None if self._proc is None else 100000 + self._proc.pid

    @property
    def name(self):
        return self._name or (self._proc.name if self._proc else "SimProcess")

    @property
    def sentinel(self):
        raise SimUnsupported("Process.sentinel")

    def terminate(self):
        if self._proc is not None:
            self.world._yield(("terminate", self._proc))

    kill = terminate

    def close(self):
        pass


class _SimContext(object):
    def __init__(self, world):
        self._w = world

    def Queue(self, maxsize=0):
        return SimQueue(self._w, maxsize)

    def Event(self):
        return SimEvent(self._w)

    def Process(self, *a, **k):
        return SimProcessHandle(self._w, *a, **k)

    def get_start_method(self, allow_none=False):
        return "fork"

    def cpu_count(self):
        return 4

    def active_children(self):
        # the calling process's children that have not exited yet (a read-only look at the world, hence a yield point)
        w = self._w
        w._yield(("ro", "active_children"))
        me = w._me()
        return [h for h in w.__dict__.get("handles", []) if h._proc is not None and not h._proc.exited and getattr(h._proc, "parent_proc", None) is me]

    def __getattr__(self, name):
        raise SimUnsupported(f"multiprocessing context attribute {name}")


_UNSUPPORTED = [
    "Pool",
    "Pipe",
    "Manager",
    "SimpleQueue",
    "JoinableQueue",
    "Lock",
    "RLock",
    "Semaphore",
    "BoundedSemaphore",
    "Condition",
    "Barrier",
    "Value",
    "Array",
    "RawValue",
    "RawArray",
    "set_start_method",
]


class SimWorld(object):
    def __init__(self, schedule=None, max_steps=400000, record_trace=True):
        schedule = schedule or {}
        if isinstance(schedule, list):
            schedule = {"choices": schedule}
        self.choices = list(schedule.get("choices", []))
        self.every = max(1, int(schedule.get("every", 1)))
        self.policy = POLICIES[int(schedule.get("policy", 0)) % len(POLICIES)]
        # "slow process" windows: [pid, first step, number of steps] during which the
        # process is not scheduled unless nothing else can run (bounded, so fairness holds)
        self.freeze = [tuple(int(v) for v in f) for f in schedule.get("freeze", [])]
        self.stalls = [(str(f[0]), int(f[1]), int(f[2])) for f in schedule.get("stall", [])]
        self.label_counts = {}
        self.procs = []
        self.queues = []
        self.parked = threading.Semaphore(0)
        self.tls = threading.local()
        self.steps = 0
        self.max_steps = max_steps
        self.trace = collections.deque(maxlen=4000) if record_trace else None
        self.stderr = io.StringIO()
        self.notes = set()
        self.ages = {}
        self.rr = 0
        self.choice_idx = 0
        self.deviations = 0
        self.timeouts_fired = 0
        self.timeouts_fired_with_buffered = 0
        self.put_blocked = 0
        self.hang = None
        self.quiescent_streak = 0
        self.status = None
        self._orig = None

    # ------------------------------------------------------------ process side
    def _me(self):
        p = getattr(self.tls, "proc", None)
        if p is None:
            raise SimUnsupported("multiprocessing primitive used outside a simulated process")
        return p

    def _log(self, proc, op, detail):
        if self.trace is not None:
            self.trace.append((self.steps, proc.pid if proc is not None else -1, op, detail))

    def _yield(self, req):
        p = self._me()
        if p.killed:
            raise SimKilled()
        p.pending = req
        self.parked.release()
        p.resume.acquire()
        if p.killed:
            raise SimKilled()
        p.pending = None
        return p.resume_value

    def checkpoint(self, label="checkpoint"):
        """A yield point for harness callbacks (lets other processes run in between)."""
        proc = getattr(self.tls, "proc", None)
        if proc is None:
            return
        # event-anchored stalls: the process that reaches the k-th checkpoint with a given label is not scheduled for
        # `dur` steps from then on (a process descheduled in the middle of a critical section)
        n = self.label_counts.get(label, 0)
        self.label_counts[label] = n + 1
        for (lab, k, dur) in self.stalls:
            if lab == label and k == n:
                self.freeze.append((proc.pid, self.steps, dur))
                self.stalled = getattr(self, "stalled", 0) + 1
        self._yield(("nb", label))

    def current_pid(self):
        p = getattr(self.tls, "proc", None)
        return None if p is None else p.pid

    def _thread_main(self, proc):
        self.tls.proc = proc
        try:
            proc.result = proc.target(*proc.args, **proc.kwargs)
            proc.exitcode = 0
        except SimKilled:
            proc.exitcode = -9
        except BaseException as e:  # noqa
            proc.exc = e
            proc.exitcode = 1
            if proc.pid != 0:
                self.stderr.write(f"Process {proc.name}:\n" + traceback.format_exc())
        finally:
            proc.finished = True
            proc.pending = None
            self._log(proc, "exit", proc.exitcode)
            self.parked.release()

    # ------------------------------------------------------------ scheduler side
    def _enabled(self):
        """List of transitions (key, category, proc_or_None, how) in canonical order."""
        out = []
        for p in self.procs:
            if not p.started or p.finished or p.pending is None:
                continue
            cat = "main" if p.pid == 0 else "worker"
            kind = p.pending[0]
            if kind in ("begin", "nb", "ro", "terminate"):
                out.append(((p.pid, kind), cat, p, "go"))
            elif kind == "get":
                q, timeout = p.pending[1], p.pending[2]
                if q.pipe:
                    out.append(((p.pid, "get"), cat, p, "go"))
                elif timeout is not None:
                    out.append(((p.pid, "get-timeout"), "timeout", p, "timeout"))
            elif kind == "put":
                q, timeout = p.pending[1], p.pending[2]
                if q.sem > 0:
                    out.append(((p.pid, "put"), cat, p, "go"))
                else:
                    self.put_blocked += 1
                    if timeout is not None:
                        out.append(((p.pid, "put-timeout"), "timeout", p, "timeout"))
            elif kind == "join":
                tgt, timeout = p.pending[1], p.pending[2]
                if tgt.exited:
                    out.append(((p.pid, "join"), cat, p, "go"))
                elif timeout is not None:
                    out.append(((p.pid, "join-timeout"), "timeout", p, "timeout"))
            elif kind == "join_thread":
                q = p.pending[1]
                if not p.buffers.get(q):
                    out.append(((p.pid, "join_thread"), cat, p, "go"))
            elif kind == "wait":
                ev, timeout = p.pending[1], p.pending[2]
                if ev.flag:
                    out.append(((p.pid, "wait"), cat, p, "go"))
                elif timeout is not None:
                    out.append(((p.pid, "wait-timeout"), "timeout", p, "timeout"))
            else:
                raise AssertionError(f"unknown pending op {p.pending}")
        for q in self.queues:
            for p in self.procs:
                if p.buffers.get(q):
                    out.append((("feeder", q.qid, p.pid), "feeder", None, (q, p)))
        return out

    def _quiescent(self, enabled):
        """Nothing but time-outs (and read-only polls) can happen."""
        for key, cat, p, how in enabled:
            if cat == "feeder":
                return False
            if how == "timeout":
                continue
            if p is not None and p.pending is not None and p.pending[0] == "ro":
                continue
            return False
        return True

    def _frozen(self, pid, step):
        for (fp, start, dur) in self.freeze:
            if fp == pid and start <= step < start + dur:
                return True
        return False

    def _pick(self, enabled):
        step = self.steps
        if self.freeze and self.quiescent_streak <= 8:
            thawed = [e for e in enabled if not ((e[2] is not None and self._frozen(e[2].pid, step)) or (e[2] is None and self._frozen(e[3][1].pid, step)))]
            if thawed and len(thawed) < len(enabled):
                self.frozen_steps = getattr(self, "frozen_steps", 0) + 1
                enabled = thawed
        # ages for fairness
        keys = [e[0] for e in enabled]
        self.ages = {k: self.ages.get(k, step) for k in keys}
        if self.quiescent_streak > 8:
            # suspected hang: strict round-robin so that every process gets its turns
            self.rr += 1
            return enabled[self.rr % len(enabled)]
        # policy decision (fallback)
        oldest = min(enabled, key=lambda e: self.ages[e[0]])
        if step - self.ages[oldest[0]] >= 30:
            fallback = oldest
        else:
            prio = {c: i for i, c in enumerate(self.policy)}
            best = min(prio[e[1]] for e in enabled)
            cands = [e for e in enabled if prio[e[1]] == best]
            self.rr += 1
            fallback = cands[self.rr % len(cands)]
        if self.choice_idx < len(self.choices) and step % self.every == 0:
            c = self.choices[self.choice_idx]
            self.choice_idx += 1
            pick = enabled[c % len(enabled)]
            if pick[0] != fallback[0]:
                self.deviations += 1
            return pick
        return fallback

    def _resume(self, proc, value):
        proc.resume_value = value
        if proc.thread is None:
            proc.thread = threading.Thread(target=self._thread_main, args=(proc,), daemon=True)
            proc.thread.start()
        else:
            proc.resume.release()
        self.parked.acquire()

    def _execute(self, t):
        key, cat, p, how = t
        if cat == "feeder":
            q, prod = how
            obj = prod.buffers[q].popleft()
            try:
                data = pickle.dumps(obj)
            except Exception as e:
                # like the real feeder thread: report, drop the item, free the slot
                self.stderr.write(f"Traceback (feeder of q{q.qid}): {type(e).__name__}: {e}\n")
                q.dropped.append(repr(obj)[:200])
                if q.sem is not None:
                    q.sem += 1
                self._log(None, "feeder-drop", q.qid)
                return
            q.pipe.append(data)
            self._log(None, "feeder", (q.qid, prod.pid))
            return
        if how == "timeout":
            self.timeouts_fired += 1
            if p.pending[0] == "get":
                q = p.pending[1]
                if any(pp.buffers.get(q) for pp in self.procs):
                    self.timeouts_fired_with_buffered += 1
            self._resume(p, "timeout")
            return
        if p.pending[0] == "terminate":
            tgt = p.pending[1]
            if tgt.thread is not None and not tgt.finished:
                tgt.killed = True
                tgt.resume.release()
                self.parked.acquire()
            elif tgt.thread is None and not tgt.finished:
                tgt.finished = True
                tgt.exitcode = -15
            for b in tgt.buffers.values():
                b.clear()
        self._resume(p, "ok")

    def run(self, fn):
        """Run ``fn()`` as simulated process 0. Returns a dict describing how it ended."""
        main = SimProc(self, fn, name="caller")
        main.started = True
        main.pending = ("begin",)
        self.procs.append(main)
        saved_filters = warnings.filters[:]
        try:
            while True:
                if main.finished:
                    self.status = "returned" if main.exc is None else "raised"
                    break
                enabled = self._enabled()
                if not enabled:
                    self.status = "hang"
                    self.hang = "dead-lock: no transition is enabled; " + self._describe_blocked()
                    break
                if self._quiescent(enabled):
                    self.quiescent_streak += 1
                    nlive = sum(1 for p in self.procs if p.live)
                    if self.quiescent_streak >= max(100, 50 * nlive):
                        self.status = "hang"
                        self.hang = (
                            "live-lock: for %d consecutive steps only time-outs could fire, every queue and feeder "
                            "buffer unchanged; " % self.quiescent_streak
                        ) + self._describe_blocked()
                        break
                else:
                    self.quiescent_streak = 0
                t = self._pick(enabled)
                self.ages.pop(t[0], None)  # taken: its age starts afresh
                self._execute(t)
                self.steps += 1
                if self.steps >= self.max_steps:
                    self.status = "step-limit"
                    break
        finally:
            self._cleanup()
            warnings.filters[:] = saved_filters
            try:
                warnings._filters_mutated()
            except Exception:
                pass
        return {
            "status": self.status,
            "exc": main.exc,
            "result": main.result,
            "hang": self.hang,
            "steps": self.steps,
        }

    def _describe_blocked(self):
        parts = []
        for p in self.procs:
            if p.live and p.pending is not None:
                k = p.pending[0]
                d = k
                if k in ("get", "put", "join_thread"):
                    d += f" q{p.pending[1].qid}"
                elif k == "join":
                    d += f" proc{p.pending[1].pid}"
                parts.append(f"proc{p.pid}:{d}")
            elif p.started and p.finished:
                parts.append(f"proc{p.pid}:exited({p.exitcode})")
        qs = [f"q{q.qid}:pipe={len(q.pipe)}" for q in self.queues]
        return " ".join(parts + qs)

    def _cleanup(self):
        for p in self.procs:
            if p.thread is not None and not p.finished:
                p.killed = True
                p.resume.release()
                self.parked.acquire()
        for p in self.procs:
            if p.thread is not None:
                p.thread.join(timeout=5)

    # ------------------------------------------------------------ facts for oracles
    def all_exited(self):
        return all(p.exited for p in self.procs[1:])

    def leftovers(self):
        """items left in pipes or feeder buffers"""
        n = sum(len(q.pipe) for q in self.queues)
        n += sum(len(b) for p in self.procs for b in p.buffers.values())
        return n

    def worker_exitcodes(self):
        return [p.exitcode for p in self.procs[1:]]

    def trace_tail(self, n=60):
        if self.trace is None:
            return []
        return [list(map(_j, t)) for t in list(self.trace)[-n:]]

    # ------------------------------------------------------------ patching
    @contextmanager
    def patched(self):
        """Replace the multiprocessing primitives by the simulated ones."""
        import multiprocessing as mp

        try:  # tqdm lazily creates a process-global mp.RLock; make it exist before patching
            from tqdm import tqdm as _tqdm

            _tqdm.get_lock()
        except Exception:
            pass
        ctx = _SimContext(self)
        repl = {
            "Queue": ctx.Queue,
            "Event": ctx.Event,
            "Process": ctx.Process,
            "get_start_method": ctx.get_start_method,
            "get_context": lambda method=None: ctx,
            "cpu_count": ctx.cpu_count,
            "active_children": ctx.active_children,
        }

        def unsupported(name):
            def f(*a, **k):
                raise SimUnsupported(f"multiprocessing.{name}")

            return f

        for name in _UNSUPPORTED:
            repl[name] = unsupported(name)
        saved = {}
        for name, val in repl.items():
            saved[name] = mp.__dict__.get(name, _MISSING)
            setattr(mp, name, val)
        try:
            yield self
        finally:
            for name, val in saved.items():
                if val is _MISSING:
                    try:
                        delattr(mp, name)
                    except AttributeError:
                        pass
                else:
                    setattr(mp, name, val)


_MISSING = object()


def _j(x):
    if isinstance(x, (int, str, float, type(None))):
        return x
    if isinstance(x, tuple):
        return [_j(i) for i in x]
    return repr(x)
