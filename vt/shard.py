"""One shard of one part of one check, run in its own process.

usage: python -m vt.shard <check-id> <part> <shard> <nshards> <tier> <seed> <outfile>

Writes a JSON result; never prints a verdict (the runner does).
"""

import collections
import importlib
import io
import json
import os
import sys
import time
import traceback

from .core import Violation, HarnessError, fingerprint, jsonable, cleanup_scratch


MAX_SAMPLES = 4
MAX_FAILS_ENUM = 5


class ShardState(object):
    def __init__(self):
        self.evals = 0
        self.inner = 0
        self.skipped = 0
        self.classes = collections.Counter()
        self.nontrivial = set()
        self.samples = []
        self.failures = []  # list of dicts {case, clause, msg, details}
        self.known = collections.Counter()
        self.harness_error = None
        self.budget_exhausted = False

    def record(self, case, outcome):
        fp = fingerprint(case)
        self.inner += outcome.count
        for c in outcome.classes:
            self.classes[c] += 1
        if outcome.nontrivial:
            self.nontrivial.add(fp)
        if len(self.samples) < 2 or (len(self.samples) < MAX_SAMPLES and int(fp[:4], 16) < 2048):
            s = {"case": case}
            if outcome.info is not None:
                s["info"] = outcome.info
            s["nontrivial"] = outcome.nontrivial
            s["classes"] = outcome.classes
            self.samples.append(s)


def purge_toasty():
    """clean-room mode: forget every toasty module so that module-level state (caches, class attributes)
    cannot carry over from one case to the next; the next import builds it afresh"""
    for name in [k for k in sys.modules if k == "toasty" or k.startswith("toasty.")]:
        if name.endswith("_libtoasty"):
            continue
        del sys.modules[name]


CLEANROOM = os.environ.get("VT_CLEANROOM") == "1"


def load_check(check_id):
    return importlib.import_module("vt.checks." + check_id.lower())


def match_known(mod, open_sigs, case, v):
    sigs = getattr(mod, "KNOWN_SIGNATURES", {})
    for name in open_sigs:
        pred = sigs.get(name)
        if pred is None:
            continue
        try:
            if pred[0](case, v):
                return name
        except Exception:
            continue
    return None


def fail_record(case, v):
    d = {"case": case, "clause": v.clause, "msg": v.msg}
    det = {}
    for k, val in (v.details or {}).items():
        try:
            det[k] = jsonable(val)
        except Exception:
            det[k] = repr(val)[:2000]
    d["details"] = det
    return d


def run_hypothesis(mod, part, shard, nshards, tier, seed, open_sigs, st):
    import hypothesis
    from hypothesis import given, settings, HealthCheck, Phase, Verbosity

    total = max(1, int(part.examples[tier] * float(os.environ.get("VT_SCALE", "1"))))
    n = max(1, (total + nshards - 1) // nshards)
    budget = part.budget_s[tier] * max(1.0, float(os.environ.get("VT_SCALE", "1"))) * float(os.environ.get("VT_BUDGET_SCALE", "1"))
    t_end = time.time() + budget
    phases = [Phase.generate]
    if part.shrink:
        phases.append(Phase.shrink)
    strat = part.strategy(tier)
    # a generous extra window for shrinking once a failure has been found
    shrink_window = 45 if tier == "quick" else 240
    box = {"t_end": t_end, "fail_seen": False}

    class CaseFailed(Exception):
        """Single origin for every failing case, so that Hypothesis sees one
        consistent failure while shrinking (clauses are bucketed by the runner)."""

    def body(case):
        case = jsonable(case)
        fp = fingerprint(case)
        if fp in fail_cache:
            # already known to fail (the runner re-executes the final case in a
            # fresh process before any verdict, so nothing is taken on trust)
            st.last_fail = fail_cache[fp]
            return False
        if time.time() > box["t_end"]:
            st.skipped += 1
            st.budget_exhausted = True
            return True
        st.evals += 1
        if CLEANROOM:
            purge_toasty()
        try:
            out = part.execute(case)
        except Violation as v:
            name = match_known(mod, open_sigs, case, v)
            if name:
                st.known[name] += 1
                return True
            if not box["fail_seen"]:
                box["fail_seen"] = True
                box["t_end"] = max(box["t_end"], time.time()) + shrink_window
            st.last_fail = fail_record(case, v)
            fail_cache[fp] = st.last_fail
            return False
        st.record(case, out)
        return True

    @hypothesis.seed(seed * 1000 + shard)
    @settings(
        max_examples=n,
        database=None,
        deadline=None,
        derandomize=False,
        report_multiple_bugs=False,
        suppress_health_check=list(HealthCheck),
        phases=phases,
        verbosity=Verbosity.quiet,
    )
    @given(strat)
    def test(case):
        ok = body(case)
        if not ok:
            raise CaseFailed()

    fail_cache = {}
    st.last_fail = None
    try:
        test()
    except CaseFailed:
        if st.last_fail is not None:
            st.failures.append(st.last_fail)
    except HarnessError:
        st.harness_error = traceback.format_exc()
    except BaseException as e:  # noqa
        if isinstance(e, (KeyboardInterrupt, SystemExit)):
            raise
        # hypothesis wraps/raises other errors (Flaky, Unsatisfiable, harness bugs...)
        from hypothesis.errors import Flaky

        tb = traceback.format_exc()
        if st.last_fail is not None and isinstance(e, Flaky):
            # a failure that did not reproduce on re-execution: report as harness
            # problem (non-determinism), never as a violation
            st.harness_error = "FLAKY (non-deterministic case):\n" + tb + "\nlast failing case: " + json.dumps(st.last_fail)[:4000]
        else:
            st.harness_error = tb


def run_fuzz(mod, part, shard, nshards, tier, seed, open_sigs, st, check_id):
    """coverage-guided campaign in a child process (libFuzzer ends its process itself)"""
    import subprocess
    import tempfile
    import shutil

    total = max(1, int(part.examples[tier] * float(os.environ.get("VT_SCALE", "1"))))
    runs = max(1, total // nshards)
    d = tempfile.mkdtemp(prefix="vt-fuzz-")
    outfile = os.path.join(d, "stats.json")
    try:
        cmd = [sys.executable, "-m", "vt.fuzzshard", check_id, part.name, str(seed * 1000 + shard + 1), str(runs), outfile, os.path.join(d, "corpus")]
        try:
            p = subprocess.run(cmd, capture_output=True, text=True, timeout=part.budget_s[tier] * float(os.environ.get("VT_BUDGET_SCALE", "1")) + 120)
            tail = (p.stdout + p.stderr)[-1500:]
        except subprocess.TimeoutExpired:
            st.budget_exhausted = True
            tail = "timeout"
        if not os.path.exists(outfile):
            st.harness_error = "fuzz campaign produced no statistics: " + tail
            return
        r = json.load(open(outfile))
        st.evals = r["evals"]
        st.inner = r["evals"]
        st.classes.update(r["classes"])
        st.nontrivial.update(r["nontrivial"])
        st.samples = r["samples"]
        if r["failure"]:
            st.failures.append(r["failure"])
        elif r["evals"] < runs - 2 and tail != "timeout":
            st.harness_error = f"fuzz campaign stopped after {r['evals']} of {runs} executions without a recorded failure: " + tail
    finally:
        shutil.rmtree(d, ignore_errors=True)


def run_enumerate(mod, part, shard, nshards, tier, seed, open_sigs, st):
    budget = part.budget_s[tier]
    t_end = time.time() + budget
    complete = True
    for idx, case in enumerate(part.enumerate(tier)):
        if idx % nshards != shard:
            continue
        if time.time() > t_end:
            st.budget_exhausted = True
            complete = False
            break
        case = jsonable(case)
        st.evals += 1
        try:
            out = part.execute(case)
        except Violation as v:
            name = match_known(mod, open_sigs, case, v)
            if name:
                st.known[name] += 1
                continue
            if len(st.failures) < MAX_FAILS_ENUM:
                st.failures.append(fail_record(case, v))
            continue
        st.record(case, out)
    st.exhaustive = complete


def main(argv):
    check_id, part_name, shard, nshards, tier, seed, outfile = argv
    shard = int(shard)
    nshards = int(nshards)
    seed = int(seed)
    t0 = time.time()
    st = ShardState()
    st.exhaustive = None
    # keep toasty's chatter away from the verdict stream
    real_stdout = sys.stdout
    sink = io.StringIO()
    sys.stdout = sink
    try:
        mod = load_check(check_id)
        part = [p for p in mod.PARTS if p.name == part_name][0]
        open_sigs = [s for s in os.environ.get("VT_OPEN_SIGS", "").split(",") if s]
        if part.kind == "hypothesis":
            run_hypothesis(mod, part, shard, nshards, tier, seed, open_sigs, st)
        elif part.kind == "fuzz":
            run_fuzz(mod, part, shard, nshards, tier, seed, open_sigs, st, check_id)
        else:
            run_enumerate(mod, part, shard, nshards, tier, seed, open_sigs, st)
    except BaseException as e:  # noqa
        if isinstance(e, KeyboardInterrupt):
            raise
        st.harness_error = traceback.format_exc()
    finally:
        sys.stdout = real_stdout
        cleanup_scratch()
    res = {
        "check": check_id,
        "part": part_name,
        "shard": shard,
        "evals": st.evals,
        "inner": st.inner,
        "skipped": st.skipped,
        "classes": dict(st.classes),
        "nontrivial": sorted(st.nontrivial),
        "samples": st.samples,
        "failures": st.failures,
        "known": dict(st.known),
        "harness_error": st.harness_error,
        "budget_exhausted": st.budget_exhausted,
        "exhaustive": st.exhaustive,
        "wall_s": round(time.time() - t0, 3),
    }
    with open(outfile, "w") as f:
        json.dump(res, f)
    return 0


if __name__ == "__main__":
    sys.exit(main(sys.argv[1:]))
