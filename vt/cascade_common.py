"""Shared by C02 / C14: generated sparse leaf populations, RefCascade (reference
model of the 2x2 block reduction) and helpers to run a cascade serially, on
Engine A, or on real multiprocessing."""

import os

import numpy as np
from hypothesis import strategies as st

from . import refpyramid as rp
from . import scen
from .checks.c15 import make_array, empty_buffer_array, decode_independently, arrays_equal, undefined_mask

FORMAT_MODES = {
    "fits": ["F32", "F64"],
    "npy": ["F32", "F64", "U8", "I16", "I32", "RGBA", "RGB", "F16x3"],
    "png": ["RGBA", "RGB"],
    "jpg": ["RGB"],
}


def leaf_array(mode, spec, fmt):
    """256x256 leaf content in DISPLAY orientation."""
    if fmt == "jpg":
        # constant per 128x128 block, so that JPEG and two reductions stay near-exact
        a = np.zeros((256, 256, 3), dtype=np.uint8)
        for q in range(4):
            # grey levels (no chroma subsampling error), quadrants >= 50 levels apart
            v = 30 + 50 * ((spec["salt"] + q * (1 + spec["salt"] % 3)) % 4) + (spec["salt"] % 7)
            a[(q // 2) * 128 : (q // 2) * 128 + 128, (q % 2) * 128 : (q % 2) * 128 + 128] = [v, v, v]
        return a
    if spec.get("kind") == "allnan":
        return empty_buffer_array(mode, 256, 256)
    if spec.get("kind") == "faint" and mode == "RGBA":
        # a few isolated, nearly transparent pixels of bright colour (the soft edge of a drawing) on a transparent tile: every 2x2 block
        # they fall into averages to alpha 0 with a non-zero colour
        a = np.zeros((256, 256, 4), dtype=np.uint8)
        for i in range(1 + spec["salt"] % 3):
            yy, xx = (spec["salt"] * 37 + i * 90) % 256, (spec["salt"] * 11 + i * 60) % 256
            a[yy, xx] = [255, 40 + 5 * spec["salt"], 200, 1 + (spec["salt"] + i) % 3]
        return a
    if spec.get("kind") == "constant" and mode in ("F32", "F64"):
        # every defined pixel has the same value (a saturated or padded region)
        a = np.full((256, 256), float(spec.get("offset", 0)) + 0.5 * spec["salt"], dtype=np.float32 if mode == "F32" else np.float64)
        for h in spec.get("holes", []):
            y0, y1 = sorted(((h[0] * 7) % 257, (h[1] * 7) % 257))
            x0, x1 = sorted(((h[2] * 7) % 257, (h[3] * 7) % 257))
            a[y0:y1, x0:x1] = np.nan
        if np.isnan(a).all():
            a[0, 0] = float(spec.get("offset", 0)) + 0.5 * spec["salt"]
        return a
    holes = [[h[0] * 7, h[1] * 7, h[2] * 7, h[3] * 7, True] for h in spec.get("holes", [])]
    a = make_array(mode, 256, 256, spec["salt"], holes)
    off = spec.get("offset", 0)
    if off and a.dtype.kind == "f":
        a = (a + np.asarray(off, dtype=a.dtype)).astype(a.dtype)
    if spec.get("big") and a.dtype.kind == "i":
        # values that a single-precision accumulator cannot hold exactly
        big = {2: 30000, 4: 2**28 + 12345}[a.dtype.itemsize]
        a = np.where(a > 0, a.astype(np.int64) * (1 if a.dtype.itemsize == 2 else 1001) + big, 0).astype(a.dtype)
    for (yy, xx, *sg) in spec.get("inf", []):
        if a.dtype.kind == "f":
            a[yy % 256, xx % 256] = -np.inf if (sg and sg[0]) else np.inf  # non-NaN, hence defined: a block holding it averages to +-inf
    if spec.get("via") == "update2" and a.dtype.kind == "f" and a.ndim == 2:
        # the second painting pass (columns >= 128) extends the data range
        a[3, 200] = np.nanmax(a) + 100 + spec["salt"]
        a[250, 130] = np.nanmin(a) - 100 - spec["salt"]
    return a


def to_stored(a, fmt):
    return a[::-1] if fmt == "fits" else a


def to_display(a, fmt):
    return a[::-1] if fmt == "fits" else a


def populate(pio, case, leaves_display):
    """write the leaves through toasty (as the tilers do); returns nothing"""
    from toasty.image import Image
    from toasty.pyramid import Pos

    fmt = case["format"]
    for spec in case["leaves"]:
        p = tuple(spec["pos"])
        a = leaves_display[p]
        stored = np.ascontiguousarray(to_stored(a, fmt))
        if spec.get("kind") == "allnan":
            # toasty never stores such a tile; put the file there directly
            path = pio.tile_path(Pos(*p))
            if fmt == "npy":
                np.save(path, stored)
            elif spec.get("salt", 0) % 2 == 0:
                # ... with toasty's own writer for image files (right after whatever tile was saved before it)
                Image.from_array(stored).save(path, format="fits")
            else:
                from astropy.io import fits

                fits.writeto(path, stored, overwrite=True)
            continue
        if spec.get("via") == "update2" and a.dtype.kind == "f" and a.ndim == 2:
            # painted in two passes through the read-modify-write interface (as multi-image tilers do)
            from toasty.image import ImageMode

            half = stored.copy()
            half[:, 128:] = np.nan
            rest = stored.copy()
            rest[:, :128] = np.nan
            for part in (half, rest):
                img = Image.from_array(part, default_format=fmt)
                with pio.update_image(Pos(*p), masked_mode=img.mode, default="masked") as basis:
                    img.update_into_maskable_buffer(basis, slice(None), slice(None), slice(None), slice(None))
        else:
            pio.write_image(Pos(*p), Image.from_array(stored.copy()))
    for sp in case.get("stale", []):
        # something left over from an earlier run at a parent position
        p = tuple(sp)
        mode = case["mode"]
        a = make_array("RGBA" if mode in ("RGB", "RGBA") and fmt != "jpg" else mode, 256, 256, 99, [])
        if fmt == "jpg":
            a = a[..., :3]
        pio.write_image(Pos(*p), Image.from_array(np.ascontiguousarray(a)))


def reduce_block(buf):
    """buf: (512,512[,C]) mosaic in the buffer's pixel format -> (256,256[,C]) averaged, same dtype"""
    s = (256, 2, 256, 2) + buf.shape[2:]
    b = buf.reshape(s)
    if buf.dtype.kind == "f":
        import warnings

        with warnings.catch_warnings():
            warnings.simplefilter("ignore")
            m = np.nanmean(b.astype(np.float64), axis=(1, 3))
        return m  # float64; compared with tolerance in the tile's precision
    m = b.astype(np.int64).sum(axis=(1, 3)) // 4
    return m.astype(buf.dtype)


def ref_cascade(case, leaves_display):
    """Reference pyramid: dict pos -> display-orientation array in the STORED pixel format
    of that level (float64 values for float modes). Missing = absent / entirely undefined."""
    depth, mode, fmt = case["depth"], case["mode"], case["format"]
    level = {}
    for p, a in leaves_display.items():
        if a.dtype.kind == "f" and np.isnan(a).all():
            # an all-NaN leaf file exists on disk but carries nothing
            level[p] = a
        else:
            level[p] = a
    out = {}
    cur = dict(level)
    for n in range(depth - 1, -1, -1):
        nxt = {}
        parents = set(rp.parent(p) for p in cur)
        for par in parents:
            kids = rp.children(par)
            first = [cur[k] for k in kids if k in cur][0]
            if first.ndim == 3 and first.dtype == np.uint8:
                buf = np.zeros((512, 512, 4), dtype=np.uint8)
            elif first.dtype.kind == "f":
                buf = np.full((512, 512) + first.shape[2:], np.nan, dtype=np.float64)
            else:
                buf = np.zeros((512, 512), dtype=first.dtype)
            for i, k in enumerate(kids):
                if k not in cur:
                    continue
                a = cur[k]
                ys = slice((i // 2) * 256, (i // 2) * 256 + 256)
                xs = slice((i % 2) * 256, (i % 2) * 256 + 256)
                if a.ndim == 3 and a.dtype == np.uint8:
                    if a.shape[2] == 3:
                        buf[ys, xs, :3] = a
                        buf[ys, xs, 3] = 255
                    else:
                        valid = a[..., 3] != 0
                        sub = buf[ys, xs]
                        sub[valid] = a[valid]
                elif a.dtype.kind == "f":
                    if a.ndim == 3:
                        valid = ~np.isnan(a).any(axis=2)
                        sub = buf[ys, xs]
                        sub[valid] = a[valid]
                    else:
                        valid = ~np.isnan(a)
                        sub = buf[ys, xs]
                        sub[valid] = a[valid]
                else:
                    buf[ys, xs] = np.maximum(buf[ys, xs], a)
            m = reduce_block(buf)
            if m.dtype.kind == "f" and np.isnan(m).all():
                continue
            if m.ndim == 3 and m.dtype == np.uint8 and m.shape[2] == 4 and (m[..., 3] == 0).all():
                continue
            if fmt == "jpg":
                m = m[..., :3]
            if m.dtype.kind == "f":
                # what is stored (and read by the next level) has the tile's precision
                m = m.astype(first.dtype)
            nxt[par] = m
        out.update(nxt)
        cur = nxt
    return out


def tolerance(mode):
    """machine epsilon of the tile's precision; the comparison allows 4*eps*(largest |leaf value|)
    absolute error: one reduction sums four values and divides, all in the tile's precision"""
    return {"F64": 2.3e-16, "F32": 1.2e-7, "F16x3": 9.8e-4}.get(mode, 0.0)


@st.composite
def cascade_cases(draw, tier, formats=None, want_range=False, modes=None, depth0=False):
    fmt = draw(st.sampled_from(formats or ["fits", "fits", "npy", "npy", "png", "jpg"]))
    mode = draw(st.sampled_from(modes or FORMAT_MODES[fmt]))
    depth = draw(st.integers(1, 3 if tier == "quick" else 4)) if fmt != "jpg" else draw(st.integers(1, 2))
    if depth0 and draw(st.integers(0, 7)) == 0:
        depth = 0  # the whole data set fits into the single level-0 tile
    m = 2**depth
    pattern = draw(st.sampled_from(["sparse", "sparse", "one", "full-quartet", "cluster"])) if depth else "one"
    pos = set()
    if pattern == "one":
        pos.add((depth, draw(st.integers(0, m - 1)), draw(st.integers(0, m - 1))))
    elif pattern == "full-quartet":
        par = (depth - 1, draw(st.integers(0, m // 2 - 1)), draw(st.integers(0, m // 2 - 1)))
        pos.update(rp.children(par))
        if draw(st.booleans()) and depth >= 2:
            pos.add((depth, draw(st.integers(0, m - 1)), draw(st.integers(0, m - 1))))
    elif pattern == "cluster":
        x0, y0 = draw(st.integers(0, m - 1)), draw(st.integers(0, m - 1))
        for _ in range(draw(st.integers(2, 6))):
            pos.add((depth, min(m - 1, x0 + draw(st.integers(0, 2))), min(m - 1, y0 + draw(st.integers(0, 2)))))
    else:
        for _ in range(draw(st.integers(1, 7))):
            pos.add((depth, draw(st.integers(0, m - 1)), draw(st.integers(0, m - 1))))
    leaves = []
    for p in sorted(pos):
        spec = {"pos": list(p), "salt": draw(st.integers(0, 40))}
        if mode in ("F32", "F64", "F16x3", "RGBA"):
            spec["holes"] = [[draw(st.integers(0, 40)) for _ in range(4)] for _ in range(draw(st.integers(0, 2)))]
        if mode in ("F32", "F64"):
            spec["offset"] = draw(st.sampled_from([0, 0, -1, -50, -97, 1000, -200, -200, 500]))
            if draw(st.integers(0, 5)) == 0:
                spec["kind"] = "constant"
            if fmt in ("fits", "npy") and spec.get("kind") is None and draw(st.integers(0, 9 if not want_range else 7)) == 0:
                spec["kind"] = "allnan"
            if draw(st.integers(0, 3)) == 0:
                spec["via"] = "update2"
            if draw(st.integers(0, 4)) == 0:
                spec["inf"] = [[draw(st.integers(0, 255)), draw(st.integers(0, 255))] for _ in range(draw(st.integers(1, 3)))]
                if want_range:
                    # only the recorded ranges are judged there: infinities of either sign (a third element 1 means -inf)
                    spec["inf"] = [e + [draw(st.integers(0, 1))] for e in spec["inf"]]
        if mode == "RGBA" and draw(st.integers(0, 3)) == 0:
            spec["kind"] = "faint"
        if mode in ("I16", "I32") and draw(st.booleans()):
            spec["big"] = True
        leaves.append(spec)
    if want_range and (depth == 0 or not any(sp.get("kind") != "allnan" for sp in leaves)):
        # (a pyramid with no defined pixel at all has no data range and no root tile: outside this quantifier)
        for sp in leaves:
            if sp.get("kind") == "allnan":
                sp.pop("kind")
    case = {"format": fmt, "mode": mode, "depth": depth, "leaves": leaves}
    # stale parent files at positions that have at least one child
    parents = sorted(set(rp.parent(p) for p in pos)) if depth else []
    if draw(st.integers(0, 2)) == 0 and not want_range:
        case["stale"] = [list(parents[draw(st.integers(0, len(parents) - 1))])]
        if mode in ("F32", "F64") and fmt in ("fits", "npy") and draw(st.booleans()):
            # ... and everything beneath it is now entirely undefined: the left-over parent must go
            for spec in leaves:
                if rp.parent(tuple(spec["pos"])) == tuple(case["stale"][0]):
                    spec["kind"] = "allnan"
                    spec.pop("via", None)
                    spec.pop("inf", None)
    if depth and draw(st.integers(0, 2)) == 0:
        # a tile filter that accepts every populated tile and its ancestors (plus some extras)
        acc = set()
        for p in pos:
            for lev in range(1, depth + 1):
                acc.add(rp.ancestor_at(p, lev))
        for _ in range(draw(st.integers(0, 4))):
            n = draw(st.integers(1, depth))
            acc.add((n, draw(st.integers(0, 2**n - 1)), draw(st.integers(0, 2**n - 1))))
        case["filter"] = {"default": False, "flip": sorted(list(a) for a in acc)}
    if draw(st.integers(0, 3)) == 0:
        case["open"] = "guessed"
    if draw(st.integers(0, 3)) == 0:
        case["dir"] = "dotted"
    k = draw(st.sampled_from([1, 1, 2, 2, 3, 4]))
    case["k"] = k
    if k > 1:
        case["sched"] = draw(scen.schedules(max_size=120))
    return case
