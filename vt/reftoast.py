"""RefToast: the TOAST projection as documented in toasty/toast.py's module
docstring, in unit vectors (numpy only, no toasty imports).

Layout: the octahedron unfolded on a square. Square coordinates (u, v) with u to
the right and v DOWN, both in [0, 2]; the north pole is the centre (1, 1), the
south pole is at the four corners, the equator is the diamond through the
mid-points of the sides. Sky maps ("astronomical"): lon 0 runs from the centre to
the right, lon 90deg upwards, increasing counter-clockwise. Planetary maps: the
same, rotated by 180deg in longitude (lon 0 to the left, lon 90deg downwards).

Tile (n, x, y) is the cell [x, x+1] x [y, y+1] / 2^(n-1) of that square, x to the
right and y down. A tile is two spherical triangles joined along the diagonal
parallel to the equator edge of its level-1 quadrant; children are obtained from
great-circle mid-points (normalised vector sums) of the edges and of that diagonal.

Unit vector of (lon, lat): (cos lat cos lon, cos lat sin lon, sin lat).
"""

import numpy as np

TWOPI = 2 * np.pi


def lonlat_to_vec(lon, lat):
    lon = np.asarray(lon, dtype=float)
    lat = np.asarray(lat, dtype=float)
    cl = np.cos(lat)
    return np.stack([cl * np.cos(lon), cl * np.sin(lon), np.sin(lat)], axis=-1)


def vec_to_lonlat(v):
    v = np.asarray(v)
    lon = np.arctan2(v[..., 1], v[..., 0]) % TWOPI
    lat = np.arcsin(np.clip(v[..., 2], -1, 1))
    return lon, lat


def _norm(v):
    return v / np.linalg.norm(v, axis=-1, keepdims=True)


N = np.array([0.0, 0.0, 1.0])
S = np.array([0.0, 0.0, -1.0])


def _eq(lon_deg):
    a = np.radians(lon_deg)
    # exact for multiples of 90 degrees
    c, s = round(np.cos(a)), round(np.sin(a))
    return np.array([float(c), float(s), 0.0])


def level1_corners(x, y, planetary=False):
    """corner vectors (ul, ur, lr, ll) of the level-1 tile (1, x, y) and its diagonal flag."""
    # directions on the square (astronomical): right = lon 0, up = lon 90, left = 180, down = 270
    right, up, left, down = _eq(0), _eq(90), _eq(180), _eq(270)
    if planetary:
        right, up, left, down = left, down, right, up
    if (x, y) == (0, 0):
        c = (S, up, N, left)
    elif (x, y) == (1, 0):
        c = (up, S, right, N)
    elif (x, y) == (0, 1):
        c = (left, N, down, S)
    else:
        c = (N, right, S, down)
    increasing = (x, y) in ((0, 0), (1, 1))
    return [np.array(v, dtype=float) for v in c], increasing


def _div4(c, inc):
    ul, ur, lr, ll = c
    to = _norm(ul + ur)
    ri = _norm(ur + lr)
    bo = _norm(lr + ll)
    le = _norm(ll + ul)
    ce = _norm(ll + ur) if inc else _norm(ul + lr)
    return [
        (ul, to, ce, le),
        (to, ur, ri, ce),
        (le, ce, bo, ll),
        (ce, ri, lr, bo),
    ]


def tile_corners(n, x, y, planetary=False):
    """(corners[4,3] in order ul, ur, lr, ll; increasing) of tile (n, x, y), n >= 1."""
    assert n >= 1
    qx = (x >> (n - 1)) & 1
    qy = (y >> (n - 1)) & 1
    c, inc = level1_corners(qx, qy, planetary)
    for lev in range(2, n + 1):
        ix = (x >> (n - lev)) & 1
        iy = (y >> (n - lev)) & 1
        c = _div4(c, inc)[2 * iy + ix]
    return np.array(c), inc


def refine(grid, inc, times):
    """grid: (m+1, m+1, 3) vertex grid [row y, col x]; refine `times` times."""
    g = grid
    for _ in range(times):
        m = g.shape[0] - 1
        new = np.empty((2 * m + 1, 2 * m + 1, 3))
        new[::2, ::2] = g
        new[::2, 1::2] = _norm(g[:, :-1] + g[:, 1:])
        new[1::2, ::2] = _norm(g[:-1, :] + g[1:, :])
        if inc:
            new[1::2, 1::2] = _norm(g[1:, :-1] + g[:-1, 1:])  # ll + ur
        else:
            new[1::2, 1::2] = _norm(g[:-1, :-1] + g[1:, 1:])  # ul + lr
        g = new
    return g


def cell_centres(grid, inc):
    if inc:
        return _norm(grid[1:, :-1] + grid[:-1, 1:])
    return _norm(grid[:-1, :-1] + grid[1:, 1:])


def tile_vertex_grid(n, x, y, levels, planetary=False):
    c, inc = tile_corners(n, x, y, planetary)
    ul, ur, lr, ll = c
    g = np.array([[ul, ur], [ll, lr]])
    return refine(g, inc, levels), inc


def pixel_centres(n, x, y, planetary=False, npix_log2=8):
    """(256, 256, 3) unit vectors: [i, j] = centre of tile (n+8, 256x+j, 256y+i).
    For the level-0 tile the grid consists of the 128x128 grids of the four level-1 tiles."""
    if n == 0:
        half = 2 ** (npix_log2 - 1)
        out = np.empty((2 * half, 2 * half, 3))
        for qy in (0, 1):
            for qx in (0, 1):
                out[half * qy : half * qy + half, half * qx : half * qx + half] = pixel_centres(1, qx, qy, planetary, npix_log2 - 1)
        return out
    g, inc = tile_vertex_grid(n, x, y, npix_log2, planetary)
    return cell_centres(g, inc)


def tile_centre(n, x, y, planetary=False):
    c, inc = tile_corners(n, x, y, planetary)
    ul, ur, lr, ll = c
    return _norm(ll + ur) if inc else _norm(ul + lr)


def level_grid(n, planetary=False):
    """Full vertex grid of level n: (2^n+1, 2^n+1, 3), [row v, col u]; and the
    per-quadrant diagonal flags are handled internally. Use for n <= 9."""
    h = 2 ** (n - 1)
    full = np.empty((2 * h + 1, 2 * h + 1, 3))
    for qy in (0, 1):
        for qx in (0, 1):
            c, inc = level1_corners(qx, qy, planetary)
            ul, ur, lr, ll = c
            g = refine(np.array([[ul, ur], [ll, lr]]), inc, n - 1)
            full[qy * h : qy * h + h + 1, qx * h : qx * h + h + 1] = g
    return full


def tri_area(a, b, c):
    """spherical triangle area (steradians), vectorised over leading axes"""
    num = np.abs(np.einsum("...i,...i->...", a, np.cross(b, c)))
    den = 1 + np.einsum("...i,...i->...", a, b) + np.einsum("...i,...i->...", b, c) + np.einsum("...i,...i->...", c, a)
    return 2 * np.arctan2(num, den)


def tile_area(n, x, y, planetary=False):
    c, inc = tile_corners(n, x, y, planetary)
    ul, ur, lr, ll = c
    if inc:
        return float(tri_area(ul, ur, ll) + tri_area(ur, lr, ll))
    return float(tri_area(ul, ur, lr) + tri_area(ul, lr, ll))


def _in_tri(p, a, b, c, tol):
    """p inside spherical triangle abc (any winding), with angular tolerance tol."""
    s = np.sign(np.dot(a, np.cross(b, c)))
    if s == 0:
        s = 1.0
    for u, v in ((a, b), (b, c), (c, a)):
        nrm = np.cross(u, v)
        ln = np.linalg.norm(nrm)
        if ln == 0:
            continue
        if s * np.dot(nrm / ln, p) < -tol:
            return False
    return True


def point_in_tile(p, corners, inc, tol=1e-9):
    ul, ur, lr, ll = corners
    if inc:
        return _in_tri(p, ul, ur, ll, tol) or _in_tri(p, ur, lr, ll, tol)
    return _in_tri(p, ul, ur, lr, tol) or _in_tri(p, ul, lr, ll, tol)


def tiles_containing(depth, p, planetary=False, tol=1e-9):
    """All positions (depth, x, y) whose tile contains unit vector p within tol."""
    out = []
    if depth == 0:
        return [(0, 0, 0)]
    stack = []
    for qy in (0, 1):
        for qx in (0, 1):
            c, inc = level1_corners(qx, qy, planetary)
            if point_in_tile(p, c, inc, tol):
                stack.append((1, qx, qy, c, inc))
    while stack:
        n, x, y, c, inc = stack.pop()
        if n == depth:
            out.append((n, x, y))
            continue
        for k, cc in enumerate(_div4(c, inc)):
            if point_in_tile(p, cc, inc, tol):
                stack.append((n + 1, 2 * x + (k & 1), 2 * y + (k >> 1), cc, inc))
    return out


def locate(depth, p, planetary=False):
    """One position at `depth` whose tile contains p (best containment on ties)."""
    t = tiles_containing(depth, p, planetary, tol=1e-12)
    if not t:
        t = tiles_containing(depth, p, planetary, tol=1e-9)
    return sorted(t)[0] if t else None


def ang_dist(a, b):
    """angular distance between unit vectors (robust for small angles)"""
    a = np.asarray(a)
    b = np.asarray(b)
    return 2 * np.arcsin(np.clip(np.linalg.norm(a - b, axis=-1) / 2, 0, 1))
