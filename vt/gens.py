"""Shared Hypothesis strategies (construction, not rejection). All produce
JSON-serialisable values."""

from hypothesis import strategies as st

from . import refpyramid as rp


def positions(max_depth, min_depth=0):
    """A valid tile position [n, x, y] with min_depth <= n <= max_depth."""

    @st.composite
    def _pos(draw):
        n = draw(st.integers(min_depth, max_depth))
        m = 2**n - 1
        # bias to borders of quadrants
        x = draw(st.integers(0, m))
        y = draw(st.integers(0, m))
        return [n, x, y]

    return _pos()


@st.composite
def filter_specs(draw, depth):
    """A tile-filter description over positions of levels 1..depth.

    {"default": bool, "flip": [[n,x,y], ...]}:  F(p) = default XOR (p in flip).
    Built from structural events so that gap filters (a tile accepted, none of
    its children accepted) and chains of accepted ancestors are frequent.
    """
    if depth < 1:
        return {"default": True, "flip": []}
    default = draw(st.booleans())
    flip = set()
    if default:
        n_ev = draw(st.integers(0, 6))
        for _ in range(n_ev):
            p = tuple(draw(positions(depth, 1)))
            mode = draw(st.sampled_from(["self", "children", "three", "sibs"]))
            if mode == "self":
                flip.add(p)
            elif mode == "children" and p[0] < depth:
                flip.update(rp.children(p))
            elif mode == "three" and p[0] < depth:
                ch = rp.children(p)
                keep = draw(st.integers(0, 3))
                flip.update(c for i, c in enumerate(ch) if i != keep)
            elif mode == "sibs":
                par = rp.parent(p)
                flip.update(c for c in rp.children(par) if c != p)
            else:
                flip.add(p)
    else:
        n_ch = draw(st.integers(0, 5))
        for _ in range(n_ch):
            p = tuple(draw(positions(depth, 1)))
            # accept the whole chain of ancestors (or cut it somewhere)
            cut = draw(st.integers(0, 8))
            for lev in range(1, p[0] + 1):
                if cut == lev:
                    continue
                flip.add(rp.ancestor_at(p, lev))
            if draw(st.booleans()) and p[0] < depth:
                flip.update(rp.children(p))
    return {"default": default, "flip": sorted(list(f) for f in flip)}


def filter_fn(spec):
    if spec is None:
        return None
    flip = set(tuple(p) for p in spec["flip"])
    default = spec["default"]
    return lambda p: default != (tuple(p) in flip)


def filter_has_gap(spec, depth):
    """True when some accepted, reached tile above the leaves has no accepted child."""
    F = filter_fn(spec)
    r = rp.RefPyramid(depth, F)
    for p in r.reached:
        if 1 <= p[0] < depth and not any(c in r.reached for c in rp.children(p)):
            return True
    return False


@st.composite
def apexes(draw, depth, allow_none=True):
    if allow_none and draw(st.integers(0, 2)) == 0:
        return None
    return draw(positions(depth, 0))


def schedules(max_size=400):
    return st.lists(st.integers(0, 15), max_size=max_size)


# ---------------------------------------------------------------- sky points

import math


@st.composite
def sky_points(draw, lon_turns=4, pole_margin=0.0):
    """(lon, lat) in radians. Uniform on the sphere plus structurally special points of the
    TOAST grid (vertices, edge points, the seam, the equator diamond, quadrant-limit meridians,
    the poles), optionally shifted by multiples of 2*pi."""
    from . import reftoast as rt

    kind = draw(st.sampled_from(["uniform", "uniform", "vertex", "edge", "seam", "equator", "meridian", "pole", "centre"]))
    if kind == "uniform":
        lon = draw(st.floats(0, 2 * math.pi, allow_nan=False))
        lat = math.asin(draw(st.floats(-1, 1, allow_nan=False)))
    elif kind in ("vertex", "edge", "centre"):
        n = draw(st.integers(1, 7))
        m = 2**n
        i = draw(st.integers(0, m))
        j = draw(st.integers(0, m))
        planetary = draw(st.booleans())
        x, y = min(i, m - 1), min(j, m - 1)
        c, inc = rt.tile_corners(n, x, y, planetary)
        if kind == "vertex":
            v = c[draw(st.integers(0, 3))]
        elif kind == "edge":
            k = draw(st.integers(0, 3))
            t = draw(st.floats(0.05, 0.95))
            v = c[k] * (1 - t) + c[(k + 1) % 4] * t
            v = v / (v**2).sum() ** 0.5
        else:
            v = rt.tile_centre(n, x, y, planetary)
        lo, la = rt.vec_to_lonlat(v)
        lon, lat = float(lo), float(la)
    elif kind == "seam":
        lon = draw(st.sampled_from([0.0, 2 * math.pi, 1e-12, 2 * math.pi - 1e-12, math.pi, math.pi + 1e-12, math.pi - 1e-12]))
        lat = math.asin(draw(st.floats(-1, 1)))
    elif kind == "equator":
        lon = draw(st.floats(0, 2 * math.pi))
        lat = draw(st.sampled_from([0.0, 1e-13, -1e-13]))
    elif kind == "meridian":
        lon = draw(st.integers(0, 8)) * math.pi / 4 + draw(st.sampled_from([0.0, 1e-12, -1e-12]))
        lat = math.asin(draw(st.floats(-1, 1)))
    else:
        lon = draw(st.floats(0, 2 * math.pi))
        lat = draw(st.sampled_from([math.pi / 2, -math.pi / 2, math.pi / 2 - 1e-9, -math.pi / 2 + 1e-9]))
    if pole_margin:
        lim = math.pi / 2 - pole_margin
        lat = max(-lim, min(lim, lat))
    turns = draw(st.integers(-lon_turns, lon_turns)) if lon_turns and draw(st.integers(0, 2)) == 0 else 0
    return {"lon": lon, "lat": lat, "turns": turns, "kind": kind}
