"""Core types shared by every check: Violation, Part, Outcome, case fingerprints.

A *case* is always a JSON-serialisable value (dict / list / str / int / float /
bool / None). Everything random in a case is drawn by Hypothesis (or enumerated),
so a case can be written to a replay file and re-executed without Hypothesis by
calling ``part.execute(case)``.
"""

import hashlib
import json
import math
import os
import shutil
import tempfile
import traceback
from contextlib import contextmanager


class Violation(Exception):
    """The property under check does not hold for the executed case.

    clause : short identifier of the part of the property's statement that failed
    msg    : human-readable explanation (goes into the replay file)
    """

    def __init__(self, clause, msg, **details):
        super().__init__(f"[{clause}] {msg}")
        self.clause = clause
        self.msg = msg
        self.details = details


class HarnessError(Exception):
    """Something is wrong with the harness itself (never a verdict on toasty)."""


class Outcome(object):
    """What ``execute`` reports about a passing case."""

    __slots__ = ("classes", "nontrivial", "info", "count")

    def __init__(self, classes=(), nontrivial=False, info=None, count=1):
        self.classes = list(classes)
        self.nontrivial = bool(nontrivial)
        self.info = info
        # number of elementary evaluations inside this case (e.g. points probed)
        self.count = count


class Part(object):
    """One generated-input search of a check.

    kind == "hypothesis": ``strategy(tier)`` returns a Hypothesis strategy of cases.
    kind == "enumerate" : ``enumerate(tier)`` returns an iterable of cases; the
                          space is finite and is covered completely.
    ``execute(case)`` runs the real code and the oracle; it returns an Outcome or
    raises Violation.
    """

    def __init__(
        self,
        name,
        execute,
        strategy=None,
        enumerate=None,
        examples=None,
        shards=None,
        budget_s=None,
        shrink=True,
        describe="",
        engine=None,
        decode=None,
        instrument=None,
    ):
        self.name = name
        self.execute = execute
        self.strategy = strategy
        self.enumerate = enumerate
        # kind == "fuzz": coverage-guided fuzzing (atheris / libFuzzer); ``decode(fdp)`` turns the
        # fuzzer's bytes (an atheris.FuzzedDataProvider) into a case, ``instrument`` names the
        # modules whose coverage guides the search; ``examples`` = number of executions per tier
        self.decode = decode
        self.instrument = instrument or []
        self.kind = "fuzz" if decode is not None else ("hypothesis" if strategy is not None else "enumerate")
        # per tier: total number of examples over all shards
        self.examples = examples or {"quick": 200, "thorough": 2000}
        self.shards = shards or {"quick": 8, "thorough": 16}
        # per tier: wall-clock budget per shard for the *search*; running out of
        # it ends the search early (recorded), it is never a violation
        self.budget_s = budget_s or {"quick": 60, "thorough": 900}
        self.shrink = shrink
        self.describe = describe
        self.engine = engine


def canonical(case):
    return json.dumps(case, sort_keys=True, separators=(",", ":"), default=_json_default)


def _json_default(o):
    import numpy as np

    if isinstance(o, (np.integer,)):
        return int(o)
    if isinstance(o, (np.floating,)):
        return float(o)
    if isinstance(o, np.ndarray):
        return o.tolist()
    if isinstance(o, tuple):
        return list(o)
    raise TypeError(f"not JSON serialisable: {type(o)}")


def fingerprint(case):
    return hashlib.blake2b(canonical(case).encode(), digest_size=8).hexdigest()


def jsonable(x):
    """Round-trip through JSON so that the stored case is exactly what a replay gets."""
    return json.loads(canonical(x))


@contextmanager
def toasty_call(clause, what="call"):
    """Convert an exception escaping *toasty* code into a Violation of *clause*.

    Used only around calls whose successful completion is part of the property.
    """
    try:
        yield
    except Violation:
        raise
    except HarnessError:
        raise
    except BaseException as e:  # noqa
        if isinstance(e, (KeyboardInterrupt, SystemExit)):
            raise
        from .simsched import SimKilled, SimUnsupported  # local import: avoid cycle

        if isinstance(e, (SimKilled, SimUnsupported)):
            raise
        tb = traceback.format_exc(limit=-6)
        raise Violation(clause, f"{what} raised {type(e).__name__}: {e}", traceback=tb)


_SCRATCH_ROOT = None


def scratch_root():
    global _SCRATCH_ROOT
    if _SCRATCH_ROOT is None:
        base = os.environ.get("VT_SCRATCH")
        if not base:
            base = "/dev/shm" if os.path.isdir("/dev/shm") and os.access("/dev/shm", os.W_OK) else tempfile.gettempdir()
        _SCRATCH_ROOT = tempfile.mkdtemp(prefix="vt-", dir=base)
    return _SCRATCH_ROOT


def cleanup_scratch():
    global _SCRATCH_ROOT
    if _SCRATCH_ROOT and os.path.isdir(_SCRATCH_ROOT):
        shutil.rmtree(_SCRATCH_ROOT, ignore_errors=True)
    _SCRATCH_ROOT = None


@contextmanager
def fresh_dir(prefix="case-"):
    d = tempfile.mkdtemp(prefix=prefix, dir=scratch_root())
    try:
        yield d
    finally:
        shutil.rmtree(d, ignore_errors=True)


def isclose(a, b, rtol=0.0, atol=0.0):
    return abs(a - b) <= atol + rtol * max(abs(a), abs(b))


def finite(x):
    return isinstance(x, (int, float)) and math.isfinite(x)
