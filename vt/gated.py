"""Engine B: real forked processes using the real filelock and real files, where
every lock attempt / read / write start / write middle / release is a *gate* that
only the controller can open, in a generated order.

Child protocol (text lines on the report pipe):
    gate <name>          the child is blocked at the gate and waits for one byte on its go pipe
    ev <name> [detail]   something that happened (no blocking)
    done                 the child's program completed
    error <text>         the child's program raised
"""

import io
import os
import select
import sys
import traceback


class Child(object):
    def __init__(self, idx, pid, rfd, wfd):
        self.idx = idx
        self.pid = pid
        self.rfd = rfd  # controller reads reports here
        self.wfd = wfd  # controller writes go bytes here
        self.buf = b""
        self.gate = None  # name of the gate it is parked at
        self.finished = False
        self.error = None
        self.events = []
        self.holds = set()  # lock paths it currently holds
        self.wants = None  # lock path it is trying to get
        self.futile = 0


def _install_gates(report_w, go_r, formats_halfway=True):
    """Runs in the child: wrap filelock / PyramidIO / Image.save with gates."""
    import filelock
    import filelock._api as fapi
    from toasty.pyramid import PyramidIO
    from toasty.image import Image

    def say(line):
        os.write(report_w, (line + "\n").encode())

    def gate(name):
        say("gate " + name)
        b = os.read(go_r, 1)
        if not b:
            os._exit(3)

    # No real waiting between lock attempts: the controller decides when to retry. The waiting
    # process's clock is virtual: a scheduler may delay a process for arbitrarily long, so every
    # second wait between two attempts "takes" 30 s (any time-out based lock breaking must cope).
    class _Time(object):
        def __init__(self):
            self._skew = 0.0
            self._n = 0

        def __getattr__(self, n):
            import time as _t

            return getattr(_t, n)

        def sleep(self, _s):
            self._n += 1
            self._skew += 30.0 if self._n % 2 == 0 else float(_s)
            return None

        def perf_counter(self):
            import time as _t

            return _t.perf_counter() + self._skew

        def monotonic(self):
            import time as _t

            return _t.monotonic() + self._skew

        def time(self):
            import time as _t

            return _t.time() + self._skew

    fapi.time = _Time()

    for cls in (filelock.SoftFileLock, filelock.FileLock):
        if getattr(cls, "_vt_gated", False) or "_acquire" not in cls.__dict__:
            continue
        orig_acq = cls._acquire
        orig_rel = cls._release

        def _acquire(self, _o=orig_acq):
            gate("lock-attempt " + self.lock_file)
            _o(self)
            say(("ev lock-acquired " if self.is_locked else "ev lock-busy ") + self.lock_file)

        def _release(self, _o=orig_rel):
            gate("release " + self.lock_file)
            _o(self)
            say("ev released " + self.lock_file)
            # whatever the code does right after giving the lock up happens at a moment of the controller's choosing
            gate("after-release " + self.lock_file)

        cls._acquire = _acquire
        cls._release = _release
        cls._vt_gated = True

    orig_read = PyramidIO.read_image
    orig_write = PyramidIO.write_image
    orig_save = Image.save

    def read_image(self, pos, *a, **k):
        gate("read %d_%d_%d" % tuple(pos))
        r = orig_read(self, pos, *a, **k)
        say("ev read-done %d_%d_%d" % tuple(pos))
        return r

    def write_image(self, pos, *a, **k):
        gate("write %d_%d_%d" % tuple(pos))
        r = orig_write(self, pos, *a, **k)
        say("ev write-done %d_%d_%d" % tuple(pos))
        return r

    def save(self, path_or_stream, format=None, **k):
        if not isinstance(path_or_stream, (str, bytes, os.PathLike)):
            return orig_save(self, path_or_stream, format=format, **k)
        buf = io.BytesIO()
        orig_save(self, buf, format=format or self._default_format, **k)
        data = buf.getvalue()
        with open(path_or_stream, "wb") as f:
            f.write(data[: len(data) // 2])
            f.flush()
            gate("write-mid " + os.path.basename(str(path_or_stream)))
            f.write(data[len(data) // 2 :])

    PyramidIO.read_image = read_image
    PyramidIO.write_image = write_image
    Image.save = save
    return say, gate


def run_child(report_w, go_r, prog):
    """the body of a gated child once its pipes exist (used after fork and by the exec'd interpreter)"""
    devnull = os.open(os.devnull, os.O_WRONLY)
    os.dup2(devnull, 1)
    say, gate = _install_gates(report_w, go_r)
    gate("start")
    try:
        prog()
        say("done")
    except BaseException as e:  # noqa
        say("error " + (type(e).__name__ + ": " + str(e)).replace("\n", " ")[:500])
        say("ev traceback " + traceback.format_exc().replace("\n", " | ")[-1500:])


class GatedRun(object):
    """Fork one child per program; each program is a zero-argument callable run in the child.

    A program may instead be a spec {"module": ..., "func": ..., "args": [...]} (module.func(*args) returns the
    callable); with fresh_interpreters=True such a child is a newly started Python interpreter (fork + exec) with its
    own PYTHONHASHSEED, i.e. an independently started job rather than a forked worker."""

    def __init__(self, programs, fresh_interpreters=False):
        import importlib
        import json

        self.children = []
        self.order = []  # global order of completed steps: (child, what)
        for i, prog in enumerate(programs):
            r1, w1 = os.pipe()  # child -> controller
            r2, w2 = os.pipe()  # controller -> child
            pid = os.fork()
            if pid == 0:
                # ---- child
                try:
                    os.close(r1)
                    os.close(w2)
                    for c in self.children:
                        os.close(c.rfd)
                        os.close(c.wfd)
                    if isinstance(prog, dict):
                        if fresh_interpreters:
                            os.set_inheritable(w1, True)
                            os.set_inheritable(r2, True)
                            env = dict(os.environ)
                            env["PYTHONHASHSEED"] = str(1000 + 7 * i)
                            os.execve(sys.executable, [sys.executable, "-m", "vt.gated", str(w1), str(r2), json.dumps(prog)], env)
                        prog = getattr(importlib.import_module(prog["module"]), prog["func"])(*prog["args"])
                    devnull = os.open(os.devnull, os.O_WRONLY)
                    os.dup2(devnull, 1)
                    say, gate = _install_gates(w1, r2)
                    gate("start")
                    try:
                        prog()
                        say("done")
                    except BaseException as e:  # noqa
                        say("error " + (type(e).__name__ + ": " + str(e)).replace("\n", " ")[:500])
                        say("ev traceback " + traceback.format_exc().replace("\n", " | ")[-1500:])
                finally:
                    os._exit(0)
            os.close(w1)
            os.close(r2)
            self.children.append(Child(i, pid, r1, w2))

    def _pump(self, child, timeout=30.0):
        """read the child's report lines until it parks at a gate or finishes"""
        while True:
            while b"\n" in child.buf:
                line, child.buf = child.buf.split(b"\n", 1)
                line = line.decode(errors="replace")
                if line.startswith("gate "):
                    child.gate = line[5:]
                    if child.gate.startswith("lock-attempt "):
                        child.wants = child.gate.split(" ", 1)[1]
                    return
                if line.startswith("ev "):
                    child.events.append(line[3:])
                    self.order.append((child.idx, line[3:]))
                    if line.startswith("ev lock-acquired "):
                        child.holds.add(line.split(" ", 2)[2])
                        child.wants = None
                    elif line.startswith("ev released "):
                        child.holds.discard(line.split(" ", 2)[2])
                    elif line.startswith("ev lock-busy"):
                        child.futile += 1
                    continue
                if line == "done":
                    child.finished = True
                    child.gate = None
                    return
                if line.startswith("error "):
                    child.error = line[6:]
                    continue
            r, _, _ = select.select([child.rfd], [], [], timeout)
            if not r:
                raise RuntimeError(f"gated child {child.idx} does not respond (parked at {child.gate})")
            data = os.read(child.rfd, 65536)
            if not data:
                # pipe closed: the child exited
                child.finished = True
                child.gate = None
                return
            child.buf += data

    def run(self, choices, max_futile=3, max_steps=5000):
        """Drive the children to completion. Returns dict with status and facts."""
        for c in self.children:
            self._pump(c)
        ci = 0
        steps = 0
        overlap = 0
        status = "completed"
        while True:
            live = [c for c in self.children if not c.finished]
            if not live:
                break
            held = set()
            for c in self.children:
                held |= c.holds
            # children whose next step can do something
            useful = []
            futile = []
            for c in live:
                if c.gate and c.gate.startswith("lock-attempt ") and c.gate.split(" ", 1)[1] in held:
                    futile.append(c)
                else:
                    useful.append(c)
            # measure contention: >= 2 children between "wants the lock" and "released" on one path
            per = {}
            for c in live:
                for p in c.holds:
                    per[p] = per.get(p, 0) + 1
                if c.wants:
                    per[c.wants] = per.get(c.wants, 0) + 1
            if any(v >= 2 for v in per.values()):
                overlap += 1
            cands = list(useful)
            cands += [c for c in futile if c.futile < max_futile]
            if not cands:
                if futile and not useful:
                    status = "deadlock"
                    break
                cands = useful
            c = cands[(choices[ci] if ci < len(choices) else steps) % len(cands)]
            ci += 1
            steps += 1
            os.write(c.wfd, b"g")
            c.gate = None
            self._pump(c)
            if steps > max_steps:
                status = "step-limit"
                break
        return {"status": status, "steps": steps, "overlap_steps": overlap}

    def close(self):
        for c in self.children:
            try:
                os.close(c.wfd)
            except OSError:
                pass
        for c in self.children:
            try:
                os.kill(c.pid, 9)
            except OSError:
                pass
            try:
                os.waitpid(c.pid, 0)
            except OSError:
                pass
            try:
                os.close(c.rfd)
            except OSError:
                pass


if __name__ == "__main__":
    # a freshly started interpreter acting as one gated child: python -m vt.gated <report fd> <go fd> <program spec>
    import importlib
    import json

    _w, _r, _spec = int(sys.argv[1]), int(sys.argv[2]), json.loads(sys.argv[3])
    try:
        _prog = getattr(importlib.import_module(_spec["module"]), _spec["func"])(*_spec["args"])
        run_child(_w, _r, _prog)
    finally:
        os._exit(0)
