"""Engine B: real forked processes using the real filelock and real files, where
every lock attempt / read / write start / write middle / release is a *gate* that
only the controller can open, in a generated order.

Child protocol (text lines on the report pipe):
    gate <name>          the child is blocked at the gate and waits for one byte on its go pipe
    ev <name> [detail]   something that happened (no blocking)
    done                 the child's program completed
    error <text>         the child's program raised
"""

import io
import os
import select
import sys
import traceback


class Child(object):
    def __init__(self, idx, pid, rfd, wfd):
        self.idx = idx
        self.pid = pid
        self.rfd = rfd  # controller reads reports here
        self.wfd = wfd  # controller writes go bytes here
        self.buf = b""
        self.gate = None  # name of the gate it is parked at
        self.finished = False
        self.error = None
        self.events = []
        self.holds = set()  # lock paths it currently holds
        self.wants = None  # lock path it is trying to get
        self.futile = 0


OS_GATED = ("open", "link", "symlink", "unlink", "remove", "rename", "replace", "stat", "lstat", "mkdir", "rmdir", "utime", "listdir", "scandir")
OSPATH_GATED = ("exists", "lexists", "isfile", "isdir", "getmtime", "getsize", "getctime")


def _install_gates(report_w, go_r, formats_halfway=True, opts=None):
    """Runs in the child: wrap filelock / PyramidIO / Image.save with gates.

    opts: {"lock_fault": k} - the k-th creation of a lock marker (an os.open(..., O_CREAT) of a path ending in .lock)
    in this child fails with OSError(EDQUOT), a transient fault at exactly the lock-acquire step."""
    import errno
    import filelock
    import filelock._api as fapi
    import toasty.pyramid as tpyr
    from toasty.pyramid import PyramidIO
    from toasty.image import Image

    opts = opts or {}
    _read, _write = os.read, os.write

    def say(line):
        _write(report_w, (line + "\n").encode())

    def gate(name):
        say("gate " + name)
        b = _read(go_r, 1)
        if not b:
            os._exit(3)

    state = {"in_update": 0, "lock_creates": 0}

    # (1) a fault at the lock-acquire step
    if opts.get("lock_fault"):
        _real_open = os.open

        def _open(path, flags, *a, **k):
            if isinstance(path, (str, bytes, os.PathLike)) and os.fspath(path).endswith(".lock" if isinstance(os.fspath(path), str) else b".lock") and (flags & os.O_CREAT):
                state["lock_creates"] += 1
                if state["lock_creates"] == opts["lock_fault"]:
                    say("ev lock-fault-injected")
                    raise OSError(errno.EDQUOT, "Disk quota exceeded (injected by the harness)", os.fspath(path))
            return _real_open(path, flags, *a, **k)

        os.open = _open

    # (2) whatever file-system call the pyramid module itself makes while a read-modify-write is in progress (a home-made
    # lock, a clean-up, an existence probe) is a gate too, so that such a step can be placed between any two steps of
    # another updater; with the stock SoftFileLock nothing but the occasional unlink of an emptied tile passes here
    class _PathProxy(object):
        def __init__(self, real):
            self._real = real

        def __getattr__(self, name):
            v = getattr(self._real, name)
            if name in OSPATH_GATED:
                def w(*a, **k):
                    if state["in_update"] > 0:
                        gate("os.path.%s %s" % (name, os.path.basename(str(a[0])) if a else ""))
                    return v(*a, **k)

                return w
            return v

    class _OsProxy(object):
        def __init__(self, real):
            self._real = real
            self.path = _PathProxy(real.path)

        def __getattr__(self, name):
            v = getattr(self._real, name)
            if name in OS_GATED:
                def w(*a, **k):
                    if state["in_update"] > 0:
                        gate("os.%s %s" % (name, os.path.basename(str(a[0])) if a else ""))
                    return v(*a, **k)

                return w
            return v

    if not isinstance(getattr(tpyr, "os", None), _OsProxy) and not getattr(tpyr, "_vt_os_proxied", False):
        tpyr.os = _OsProxy(os)
        tpyr._vt_os_proxied = True
        from contextlib import contextmanager

        orig_update = PyramidIO.update_image

        @contextmanager
        def update_image(self, *a, **k):
            state["in_update"] += 1
            try:
                with orig_update(self, *a, **k) as basis:
                    yield basis
            finally:
                state["in_update"] -= 1

        PyramidIO.update_image = update_image

    # No real waiting between lock attempts: the controller decides when to retry. The waiting
    # process's clock is virtual: a scheduler may delay a process for arbitrarily long, so every
    # second wait between two attempts "takes" 30 s (any time-out based lock breaking must cope).
    class _Time(object):
        def __init__(self):
            self._skew = 0.0
            self._n = 0

        def __getattr__(self, n):
            import time as _t

            return getattr(_t, n)

        def sleep(self, _s):
            self._n += 1
            self._skew += 30.0 if self._n % 2 == 0 else float(_s)
            return None

        def perf_counter(self):
            import time as _t

            return _t.perf_counter() + self._skew

        def monotonic(self):
            import time as _t

            return _t.monotonic() + self._skew

        def time(self):
            import time as _t

            return _t.time() + self._skew

    fapi.time = _Time()

    for cls in (filelock.SoftFileLock, filelock.FileLock):
        if getattr(cls, "_vt_gated", False) or "_acquire" not in cls.__dict__:
            continue
        orig_acq = cls._acquire
        orig_rel = cls._release

        def _acquire(self, _o=orig_acq):
            gate("lock-attempt " + self.lock_file)
            _o(self)
            say(("ev lock-acquired " if self.is_locked else "ev lock-busy ") + self.lock_file)

        def _release(self, _o=orig_rel):
            gate("release " + self.lock_file)
            _o(self)
            say("ev released " + self.lock_file)
            # whatever the code does right after giving the lock up happens at a moment of the controller's choosing
            gate("after-release " + self.lock_file)

        cls._acquire = _acquire
        cls._release = _release
        cls._vt_gated = True

    orig_read = PyramidIO.read_image
    orig_write = PyramidIO.write_image
    orig_save = Image.save

    def read_image(self, pos, *a, **k):
        gate("read %d_%d_%d" % tuple(pos))
        r = orig_read(self, pos, *a, **k)
        say("ev read-done %d_%d_%d" % tuple(pos))
        return r

    def write_image(self, pos, *a, **k):
        gate("write %d_%d_%d" % tuple(pos))
        r = orig_write(self, pos, *a, **k)
        say("ev write-done %d_%d_%d" % tuple(pos))
        return r

    def save(self, path_or_stream, format=None, **k):
        if not isinstance(path_or_stream, (str, bytes, os.PathLike)):
            return orig_save(self, path_or_stream, format=format, **k)
        buf = io.BytesIO()
        orig_save(self, buf, format=format or self._default_format, **k)
        data = buf.getvalue()
        with open(path_or_stream, "wb") as f:
            f.write(data[: len(data) // 2])
            f.flush()
            gate("write-mid " + os.path.basename(str(path_or_stream)))
            f.write(data[len(data) // 2 :])

    PyramidIO.read_image = read_image
    PyramidIO.write_image = write_image
    Image.save = save
    return say, gate


def run_child(report_w, go_r, prog, opts=None):
    """the body of a gated child once its pipes exist (used after fork and by the exec'd interpreter)"""
    devnull = os.open(os.devnull, os.O_WRONLY)
    os.dup2(devnull, 1)
    say, gate = _install_gates(report_w, go_r, opts=opts)
    gate("start")
    try:
        prog()
        say("done")
    except BaseException as e:  # noqa
        say("error " + (type(e).__name__ + ": " + str(e)).replace("\n", " ")[:500])
        say("ev traceback " + traceback.format_exc().replace("\n", " | ")[-1500:])


class GatedRun(object):
    """Fork one child per program; each program is a zero-argument callable run in the child.

    A program may instead be a spec {"module": ..., "func": ..., "args": [...]} (module.func(*args) returns the
    callable); with fresh_interpreters=True such a child is a newly started Python interpreter (fork + exec) with its
    own PYTHONHASHSEED, i.e. an independently started job rather than a forked worker."""

    def __init__(self, programs, fresh_interpreters=False, child_opts=None):
        import importlib
        import json

        child_opts = child_opts or {}

        self.children = []
        self.order = []  # global order of completed steps: (child, what)
        for i, prog in enumerate(programs):
            r1, w1 = os.pipe()  # child -> controller
            r2, w2 = os.pipe()  # controller -> child
            pid = os.fork()
            if pid == 0:
                # ---- child
                try:
                    os.close(r1)
                    os.close(w2)
                    for c in self.children:
                        os.close(c.rfd)
                        os.close(c.wfd)
                    if isinstance(prog, dict):
                        if fresh_interpreters:
                            os.set_inheritable(w1, True)
                            os.set_inheritable(r2, True)
                            env = dict(os.environ)
                            env["PYTHONHASHSEED"] = str(1000 + 7 * i)
                            os.execve(sys.executable, [sys.executable, "-m", "vt.gated", str(w1), str(r2), json.dumps(dict(prog, opts=child_opts.get(i)))], env)
                        prog = getattr(importlib.import_module(prog["module"]), prog["func"])(*prog["args"])
                    devnull = os.open(os.devnull, os.O_WRONLY)
                    os.dup2(devnull, 1)
                    say, gate = _install_gates(w1, r2, opts=child_opts.get(i))
                    gate("start")
                    try:
                        prog()
                        say("done")
                    except BaseException as e:  # noqa
                        say("error " + (type(e).__name__ + ": " + str(e)).replace("\n", " ")[:500])
                        say("ev traceback " + traceback.format_exc().replace("\n", " | ")[-1500:])
                finally:
                    os._exit(0)
            os.close(w1)
            os.close(r2)
            self.children.append(Child(i, pid, r1, w2))

    def _pump(self, child, timeout=30.0):
        """read the child's report lines until it parks at a gate or finishes"""
        while True:
            while b"\n" in child.buf:
                line, child.buf = child.buf.split(b"\n", 1)
                line = line.decode(errors="replace")
                if line.startswith("gate "):
                    child.gate = line[5:]
                    if child.gate.startswith("lock-attempt "):
                        child.wants = child.gate.split(" ", 1)[1]
                    return
                if line.startswith("ev "):
                    child.events.append(line[3:])
                    self.order.append((child.idx, line[3:]))
                    if line.startswith("ev lock-acquired "):
                        child.holds.add(line.split(" ", 2)[2])
                        child.wants = None
                    elif line.startswith("ev released "):
                        child.holds.discard(line.split(" ", 2)[2])
                    elif line.startswith("ev lock-busy"):
                        child.futile += 1
                    continue
                if line == "done":
                    child.finished = True
                    child.gate = None
                    return
                if line.startswith("error "):
                    child.error = line[6:]
                    continue
            r, _, _ = select.select([child.rfd], [], [], timeout)
            if not r:
                raise RuntimeError(f"gated child {child.idx} does not respond (parked at {child.gate})")
            data = os.read(child.rfd, 65536)
            if not data:
                # pipe closed: the child exited
                child.finished = True
                child.gate = None
                return
            child.buf += data

    def run(self, choices, max_futile=3, max_steps=5000):
        """Drive the children to completion. Returns dict with status and facts."""
        for c in self.children:
            self._pump(c)
        ci = 0
        steps = 0
        overlap = 0
        status = "completed"
        while True:
            live = [c for c in self.children if not c.finished]
            if not live:
                break
            held = set()
            for c in self.children:
                held |= c.holds
            # children whose next step can do something
            useful = []
            futile = []
            for c in live:
                if c.gate and c.gate.startswith("lock-attempt ") and c.gate.split(" ", 1)[1] in held:
                    futile.append(c)
                else:
                    useful.append(c)
            # measure contention: >= 2 children between "wants the lock" and "released" on one path
            per = {}
            for c in live:
                for p in c.holds:
                    per[p] = per.get(p, 0) + 1
                if c.wants:
                    per[c.wants] = per.get(c.wants, 0) + 1
            if any(v >= 2 for v in per.values()):
                overlap += 1
            cands = list(useful)
            cands += [c for c in futile if c.futile < max_futile]
            if not cands:
                if futile and not useful:
                    status = "deadlock"
                    break
                cands = useful
            c = cands[(choices[ci] if ci < len(choices) else steps) % len(cands)]
            ci += 1
            steps += 1
            os.write(c.wfd, b"g")
            c.gate = None
            self._pump(c)
            if steps > max_steps:
                status = "step-limit"
                break
        return {"status": status, "steps": steps, "overlap_steps": overlap}

    def close(self):
        for c in self.children:
            try:
                os.close(c.wfd)
            except OSError:
                pass
        for c in self.children:
            try:
                os.kill(c.pid, 9)
            except OSError:
                pass
            try:
                os.waitpid(c.pid, 0)
            except OSError:
                pass
            try:
                os.close(c.rfd)
            except OSError:
                pass


if __name__ == "__main__":
    # a freshly started interpreter acting as one gated child: python -m vt.gated <report fd> <go fd> <program spec>
    import importlib
    import json

    _w, _r, _spec = int(sys.argv[1]), int(sys.argv[2]), json.loads(sys.argv[3])
    try:
        _prog = getattr(importlib.import_module(_spec["module"]), _spec["func"])(*_spec["args"])
        run_child(_w, _r, _prog, opts=_spec.get("opts"))
    finally:
        os._exit(0)
