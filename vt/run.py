"""Runner: ./check <ID> quick|thorough   |   ./check <ID> --replay <file>

Exit codes: 0 = property held on everything explored (KNOWN-FINDING lines may be
printed), 1 = violation found (a line ``VIOLATION property=<id> replay=<path>``),
2 = harness error (``HARNESS-ERROR ...``), never a verdict on toasty.
"""

import collections
import glob
import hashlib
import importlib
import json
import os
import subprocess
import sys
import tempfile
import time
import traceback

HERE = os.path.dirname(os.path.dirname(os.path.abspath(__file__)))  # /verif
sys.path.insert(0, HERE)

from vt.core import Violation, HarnessError, canonical, jsonable, cleanup_scratch  # noqa: E402

NCPU = 16


def parse_known_findings(prop):
    path = os.path.join(HERE, "KNOWN_FINDINGS.txt")
    open_, fixed = [], []
    if not os.path.exists(path):
        return open_, fixed
    for line in open(path):
        line = line.strip()
        if not line or line.startswith("#"):
            continue
        kind, _, rest = line.partition(":")
        rest = rest.strip()
        toks = rest.split()
        kv = dict(t.split("=", 1) for t in toks if "=" in t and t.split("=", 1)[0] in ("property", "sig"))
        if kv.get("property") != prop:
            continue
        if kind == "open":
            open_.append({"sig": kv.get("sig"), "text": rest})
        elif kind == "fixed":
            fixed.append({"text": rest})
    return open_, fixed


def tree_info():
    import toasty

    repo = os.environ.get("VT_REPO", "/repo")
    tf = os.path.realpath(toasty.__file__)
    if not tf.startswith(os.path.realpath(repo) + os.sep):
        raise HarnessError(f"toasty imported from {tf}, expected under {repo}")
    info = {"toasty": tf}
    for name in ("_libtoasty.pyx",):
        p = os.path.join(os.path.dirname(tf), name)
        if os.path.exists(p):
            info["sha256(" + name + ")"] = hashlib.sha256(open(p, "rb").read()).hexdigest()[:16]
    so = glob.glob(os.path.join(os.path.dirname(tf), "_libtoasty*.so"))
    if so:
        info["sha256(_libtoasty.so)"] = hashlib.sha256(open(so[0], "rb").read()).hexdigest()[:16]
    return info


def run_replay_inproc(mod, part_name, case):
    part = [p for p in mod.PARTS if p.name == part_name]
    if not part:
        raise HarnessError(f"no part {part_name}")
    return part[0].execute(jsonable(case))


def replay_subprocess(check_id, path, timeout=600):
    """Execute a replay file in a fresh interpreter. Returns (status, text):
    status in {"pass", "fail", "error"}."""
    cmd = [sys.executable, "-m", "vt.run", check_id, "--replay-raw", path]
    try:
        p = subprocess.run(cmd, cwd=HERE, capture_output=True, text=True, timeout=timeout)
    except subprocess.TimeoutExpired:
        return "error", "replay timed out"
    if p.returncode == 0:
        return "pass", p.stdout
    if p.returncode == 1:
        return "fail", p.stdout
    return "error", p.stdout + p.stderr


def write_replay(check_id, part_name, fail, seed, tier):
    d = os.path.join(os.environ.get("VT_OUT_DIR") or os.path.join(HERE, "out"), "violations", check_id)
    os.makedirs(d, exist_ok=True)
    body = {
        "property": check_id,
        "part": part_name,
        "case": fail["case"],
        "clause": fail.get("clause"),
        "explanation": fail.get("msg"),
        "details": fail.get("details"),
        "found_with": {"seed": seed, "tier": tier},
    }
    h = hashlib.blake2b(canonical([part_name, fail["case"]]).encode(), digest_size=6).hexdigest()
    path = os.path.join(d, f"{part_name}-{h}.json")
    with open(path, "w") as f:
        json.dump(body, f, indent=1, sort_keys=True)
    return path


def do_replay_raw(check_id, path):
    """Run one replay file in this process; exit 0 pass / 1 fail / 2 error.
    Parts that run on the real OS scheduler (Engine R) are not a pure function of the case:
    they are tried up to 5 times and fail if any attempt fails."""
    mod = importlib.import_module("vt.checks." + check_id.lower())
    body = json.load(open(path))
    part = [p for p in mod.PARTS if p.name == body["part"]]
    tries = 5 if (part and "R (" in (part[0].engine or "")) else 1
    try:
        tree_info()
        for attempt in range(tries):
            try:
                run_replay_inproc(mod, body["part"], body["case"])
            except Violation as v:
                print(f"replay fails{' (attempt %d)' % (attempt + 1) if tries > 1 else ''}: [{v.clause}] {v.msg}")
                return 1
    except Exception:
        traceback.print_exc()
        return 2
    finally:
        cleanup_scratch()
    print("replay passes" + (" (%d attempts on the real scheduler)" % tries if tries > 1 else ""))
    return 0


def main(argv):
    if len(argv) < 2:
        print("usage: check <ID> quick|thorough | --replay <file>")
        return 2
    check_id = argv[0].upper()
    if argv[1] == "--replay-raw":
        return do_replay_raw(check_id, argv[2])
    if argv[1] == "--replay":
        st, text = replay_subprocess(check_id, os.path.abspath(argv[2]))
        sys.stdout.write(text)
        if st == "fail":
            print(f"VIOLATION property={check_id} replay={os.path.abspath(argv[2])}")
            return 1
        if st == "error":
            print(f"HARNESS-ERROR property={check_id} replay errored")
            return 2
        return 0

    tier = argv[1]
    if tier not in ("quick", "thorough"):
        tier = os.environ.get("VERIF_TIER", "quick")
    seed = int(os.environ.get("VERIF_SEED", "1") or "1")
    only_parts = [a.split("=", 1)[1] for a in argv[2:] if a.startswith("--part=")]
    t0 = time.time()

    try:
        info = tree_info()
        mod = importlib.import_module("vt.checks." + check_id.lower())
    except Exception:
        traceback.print_exc()
        print(f"HARNESS-ERROR property={check_id} cannot import toasty/check module")
        return 2

    open_findings, _fixed = parse_known_findings(check_id)
    open_sigs = [f["sig"] for f in open_findings if f["sig"]]
    env = dict(os.environ)
    env["VT_OPEN_SIGS"] = ",".join(open_sigs)

    violations = []  # (part, failrecord)
    harness_errors = []
    known_hits = collections.Counter()

    # ---- 1. replay corpus (regression inputs; seconds) -----------------------
    corpus = sorted(glob.glob(os.path.join(HERE, "replays", check_id, "*.json")))
    if os.environ.get("VT_NO_CORPUS"):
        corpus = []  # (used to measure what the generators find on their own)
    corpus_run = 0
    known_repro = {}
    from concurrent.futures import ThreadPoolExecutor

    with ThreadPoolExecutor(max_workers=8) as pool:
        corpus_results = list(pool.map(lambda pth: replay_subprocess(check_id, pth), corpus))
    for path, (st, text) in zip(corpus, corpus_results):
        base = os.path.basename(path)
        corpus_run += 1
        if base.startswith("known-"):
            sig = base[len("known-"):-len(".json")]
            known_repro[sig] = st
            if sig in open_sigs:
                continue  # expected to fail while the finding is open
        if st == "fail":
            print(text.strip())
            print(f"VIOLATION property={check_id} replay={path}")
            violations.append(("corpus", {"case": None, "msg": text.strip(), "path": path}))
        elif st == "error":
            harness_errors.append(f"replay {path}: {text[-2000:]}")

    # ---- 2. generated-input search, sharded over processes --------------------
    parts = [p for p in mod.PARTS if not only_parts or p.name in only_parts]
    # keep a whole tier within its wall-clock target: parts run one batch of shards after the other, so
    # the sum of their search budgets bounds the run (quick ~2.5 min, thorough ~25 min on 16 cores)
    target = {"quick": 150.0, "thorough": 1500.0}[tier]
    # (finite enumerations keep their own budget and run first: they end when the space is covered)
    rounds = sum(p.budget_s[tier] * max(1, (p.shards[tier] + NCPU - 1) // NCPU) for p in parts if p.kind != "enumerate")
    bscale = min(1.0, target / rounds) if rounds else 1.0
    env["VT_BUDGET_SCALE"] = repr(bscale)
    parts = [p for p in parts if p.kind == "enumerate"] + [p for p in parts if p.kind != "enumerate"]
    tmpd = tempfile.mkdtemp(prefix="vt-run-")

    def run_parts(run_these, env_, tag):
        jobs = []
        for part in run_these:
            n = part.shards[tier]
            for i in range(n):
                out = os.path.join(tmpd, f"{tag}{part.name}-{i}.json")
                cmd = [sys.executable, "-m", "vt.shard", check_id, part.name, str(i), str(n), tier, str(seed), out]
                jobs.append({"part": part, "shard": i, "cmd": cmd, "out": out})
        running = []
        pending = list(jobs)
        res = collections.defaultdict(list)
        while pending or running:
            while pending and len(running) < NCPU:
                j = pending.pop(0)
                j["log"] = open(j["out"] + ".log", "w")
                j["proc"] = subprocess.Popen(j["cmd"], cwd=HERE, env=env_, stdout=j["log"], stderr=subprocess.STDOUT)
                j["t0"] = time.time()
                # hard wall-clock cap: search budget + shrink window + slack; a shard
                # that exceeds it is killed and reported as a harness problem
                j["limit"] = j["part"].budget_s[tier] * bscale * 2 + 600
                running.append(j)
            time.sleep(0.05)
            for j in list(running):
                rc = j["proc"].poll()
                if rc is None:
                    if time.time() - j["t0"] > j["limit"]:
                        j["proc"].kill()
                        j["proc"].wait()
                        running.remove(j)
                        j["log"].close()
                        harness_errors.append(f"shard {j['part'].name}/{j['shard']} exceeded hard time limit and was killed")
                    continue
                running.remove(j)
                j["log"].close()
                if os.path.exists(j["out"]):
                    try:
                        res[j["part"].name].append(json.load(open(j["out"])))
                    except Exception as e:
                        harness_errors.append(f"shard {j['part'].name}/{j['shard']}: unreadable result: {e}")
                else:
                    log = open(j["out"] + ".log").read()[-3000:]
                    harness_errors.append(f"shard {j['part'].name}/{j['shard']} died rc={rc}: {log}")
        return res

    results = run_parts(parts, env, "")

    # ---- 3. merge ---------------------------------------------------------------
    cov_parts = {}
    tot_evals = 0
    all_nontrivial = set()
    samples = []
    for part in parts:
        rs = results.get(part.name, [])
        evals = sum(r["evals"] for r in rs)
        inner = sum(r["inner"] for r in rs)
        nt = set()
        classes = collections.Counter()
        for r in rs:
            nt.update(r["nontrivial"])
            classes.update(r["classes"])
            for name, c in r["known"].items():
                known_hits[name] += c
            if r["harness_error"]:
                harness_errors.append(f"part {part.name} shard {r['shard']}:\n{r['harness_error']}")
            for f in r["failures"]:
                violations.append((part.name, f))
        for r in rs[:3]:
            for s in r["samples"][:2]:
                if len(samples) < 12:
                    samples.append({"part": part.name, **s})
        exhaustive = None
        if part.kind == "enumerate":
            exhaustive = bool(rs) and len(rs) == part.shards[tier] and all(r["exhaustive"] for r in rs)
            if tier not in getattr(part, "exhaustive_tiers", {"quick", "thorough"}):
                exhaustive = False  # a sub-sample of the finite space in this tier
        cov_parts[part.name] = {
            "kind": part.kind,
            "describe": part.describe,
            "engine": part.engine,
            "evaluations": evals,
            "elementary_checks": inner,
            "distinct_nontrivial": len(nt),
            "classes": dict(sorted(classes.items())),
            "skipped_after_budget": sum(r["skipped"] for r in rs),
            "budget_exhausted": any(r["budget_exhausted"] for r in rs),
            "shards": len(rs),
            "wall_s_max_shard": max([r["wall_s"] for r in rs] or [0]),
        }
        if exhaustive is not None:
            cov_parts[part.name]["exhaustive"] = exhaustive
        tot_evals += evals
        all_nontrivial.update(part.name + ":" + x for x in nt)

    # ---- 4. verdicts --------------------------------------------------------------
    # Every generated failure is re-executed from its replay file in a fresh
    # process before it is reported.
    reported = []
    not_reproduced = []
    seen_buckets = set()
    gen_fails = [(p, f) for (p, f) in violations if p != "corpus"]
    gen_fails.sort(key=lambda pf: len(canonical(pf[1]["case"])))
    n_violation_lines = len([1 for (p, f) in violations if p == "corpus"])
    for pname, f in gen_fails:
        bucket = (pname, f.get("clause"))
        if bucket in seen_buckets:
            continue
        path = write_replay(check_id, pname, f, seed, tier)
        st, text = replay_subprocess(check_id, path)
        if st == "fail":
            seen_buckets.add(bucket)
            print(f"violation in part {pname}: [{f.get('clause')}] {f.get('msg')}")
            print(f"VIOLATION property={check_id} replay={path}")
            reported.append(path)
            n_violation_lines += 1
        elif st == "pass":
            not_reproduced.append((pname, f, path))
        else:
            harness_errors.append(f"replay of {path} errored: {text[-1500:]}")

    # A failure that does not reproduce alone usually depended on state that earlier cases of the same
    # shard left behind inside the library (a cache, a class attribute). Re-run those parts in clean-room
    # mode - toasty's modules are forgotten before every case - so that any failure found is self-contained.
    if not_reproduced:
        redo = [p for p in parts if p.name in set(n for n, _f, _p in not_reproduced) and p.kind == "hypothesis"]
        env2 = dict(env)
        env2["VT_CLEANROOM"] = "1"
        res2 = run_parts(redo, env2, "clean-") if redo else {}
        found = set()
        fails2 = [(pn, f) for pn, rs in res2.items() for r in rs for f in r["failures"]]
        fails2.sort(key=lambda pf: len(canonical(pf[1]["case"])))
        for pname, f in fails2:
            bucket = (pname, f.get("clause"))
            if bucket in seen_buckets:
                continue
            path = write_replay(check_id, pname, f, seed, tier)
            st, text = replay_subprocess(check_id, path)
            if st == "fail":
                seen_buckets.add(bucket)
                found.add(pname)
                print(f"violation in part {pname} (clean-room re-run): [{f.get('clause')}] {f.get('msg')}")
                print(f"VIOLATION property={check_id} replay={path}")
                n_violation_lines += 1
        for pname, f, path in not_reproduced:
            if pname not in found:
                harness_errors.append(f"failure in part {pname} did not reproduce from {path}, also not in a clean-room re-run (non-deterministic harness?): {f.get('msg')}")

    for f in open_findings:
        sig = f["sig"]
        st = known_repro.get(sig)
        extra = f"(generated cases matching this run: {known_hits.get(sig, 0)}; replay {'still fails' if st == 'fail' else st})"
        print(f"KNOWN-FINDING: property={check_id} {f['text']} {extra}")

    if not samples:
        for pname, f in gen_fails[:3]:
            samples.append({"part": pname, "case": f["case"], "failed": f.get("msg")})
    wall = time.time() - t0
    assumptions = list(getattr(mod, "ASSUMPTIONS", []))
    assumptions.append("tree under check: " + json.dumps(info, sort_keys=True))
    assumptions.append("compiled _libtoasty is used as built (Cython is not installed; a .pyx edit without a rebuilt .so is invisible)")
    coverage = {
        "evaluations": tot_evals,
        "distinct_nontrivial": len(all_nontrivial),
        "rule": getattr(mod, "RULE", ""),
        "samples": samples,
        "parts": cov_parts,
        "replay_corpus_files_run": corpus_run,
        "excluded_known": dict(known_hits),
    }
    ex = [v.get("exhaustive") for v in cov_parts.values() if "exhaustive" in v]
    if ex:
        coverage["exhaustive"] = all(ex) and all(v["kind"] == "enumerate" for v in cov_parts.values())
        coverage["exhaustive_parts"] = sorted(k for k, v in cov_parts.items() if v.get("exhaustive"))
    extra_cov = getattr(mod, "extra_coverage", None)
    if extra_cov:
        coverage.update(extra_cov(cov_parts))
    evidence = {
        "property_id": check_id,
        "tier": tier,
        "seed": seed,
        "level": getattr(mod, "LEVEL", "exploration"),
        "coverage": coverage,
        "assumptions": assumptions,
        "wall_s": round(wall, 2),
        "violations": n_violation_lines,
    }
    if harness_errors:
        evidence["coverage"]["harness_errors"] = [h[-1500:] for h in harness_errors[:5]]
    evdir = os.environ.get("VT_EVIDENCE_DIR") or os.path.join(HERE, "evidence")
    os.makedirs(evdir, exist_ok=True)
    evpath = os.path.join(evdir, f"{check_id}.json")
    with open(evpath, "w") as f:
        json.dump(evidence, f, indent=1, sort_keys=True, default=str)
    validate_evidence(evpath, quiet=bool(n_violation_lines))

    import shutil

    shutil.rmtree(tmpd, ignore_errors=True)

    print(
        f"{check_id} {tier} seed={seed}: {tot_evals} cases, {len(all_nontrivial)} distinct non-trivial, "
        f"{n_violation_lines} violation(s), {len(harness_errors)} harness error(s), {wall:.1f}s"
    )
    if n_violation_lines:
        return 1
    if harness_errors:
        for h in harness_errors[:5]:
            print("HARNESS-ERROR", h[-3000:].replace("\n", " | "))
        return 2
    return 0


def validate_evidence(path, quiet=False):
    try:
        sys.path.insert(0, os.path.join(HERE, ".deps"))
        import jsonschema
    except Exception:
        return
    schema_path = os.path.join(HERE, "schemas", "EVIDENCE.schema.json")
    if not os.path.exists(schema_path):
        return
    try:
        jsonschema.validate(json.load(open(path)), json.load(open(schema_path)))
    except Exception as e:
        # (a search that stops at its first cases because it found a violation may not have reached the minimum counts)
        print("NOTE evidence of a run that ended in a violation does not validate:" if quiet else "HARNESS-ERROR evidence does not validate:", str(e)[:500])


if __name__ == "__main__":
    sys.exit(main(sys.argv[1:]))
