"""Generated collections of images on one common TAN grid (used by C09, C03, C19, C10)."""

import math
import os

import numpy as np
from hypothesis import strategies as st


@st.composite
def mosaic_cases(draw, tier, max_size=900, max_inputs=6, allow_inf=False, allow_mixed=False):
    W = draw(st.one_of(st.integers(20, max_size), st.sampled_from([255, 256, 257, 300, 512, 513, 600])))
    H = draw(st.one_of(st.integers(20, max_size), st.sampled_from([255, 256, 257, 300, 512, 513, 600])))
    n = draw(st.integers(1, max_inputs))
    scenario = draw(st.sampled_from(["free", "free", "free", "big-overlap"]))
    if scenario == "big-overlap":
        # an input that covers whole tiles, with a NaN border, overlapping the others
        W = draw(st.sampled_from([512, 600, min(700, max_size)]))
        H = draw(st.sampled_from([512, 600, min(700, max_size)]))
        n = draw(st.integers(2, max(2, min(4, max_inputs))))
    rects = []
    for i in range(n):
        kind = draw(st.sampled_from(["any", "any", "left", "right", "top", "bottom", "full"]))
        if scenario == "big-overlap" and i == 0:
            kind = "full"
        w = draw(st.integers(1, W))
        h = draw(st.integers(1, H))
        x0 = draw(st.integers(0, W - w))
        y0 = draw(st.integers(0, H - h))
        if kind == "left":
            x0 = 0
        elif kind == "right":
            x0 = W - w
        elif kind == "top":
            y0 = 0
        elif kind == "bottom":
            y0 = H - h
        elif kind == "full":
            x0, y0, w, h = 0, 0, W, H
        border = draw(st.sampled_from([0, 0, 1, 5, 20]))
        if scenario == "big-overlap" and i == 0:
            border = draw(st.sampled_from([1, 5, 20]))
        rects.append([x0, y0, w, h, border])
    rot = draw(st.sampled_from([0.0, 0.0, 90.0, -90.0, 180.0, 36.87, 12.5]))
    # undefined regions INSIDE an input's data area (masked stars, non-rectangular footprints): [input, fx, fy, fw, fh] in
    # fractions of the input's size; another input may define those pixels
    holes = []
    if n >= 2 and draw(st.integers(0, 2)) == 0:
        for _ in range(draw(st.integers(1, 3))):
            holes.append([draw(st.integers(0, n - 1)), draw(st.floats(0.05, 0.8)), draw(st.floats(0.05, 0.8)), draw(st.floats(0.02, 0.5)), draw(st.floats(0.02, 0.5))])
    inf = []
    if allow_inf and draw(st.integers(0, 3)) == 0:
        inf = [[draw(st.floats(0, 1)), draw(st.floats(0, 1)), draw(st.sampled_from([1, 1, -1]))] for _ in range(draw(st.integers(1, 4)))]
    extra = {}
    if allow_mixed and draw(st.integers(0, 3)) == 0:
        extra["cd"] = True  # CDi_j spelling
        if n >= 2 and draw(st.integers(0, 2)) > 0:
            # a collection mixing bottom-up and top-down files of one common grid
            extra["bottom_up_each"] = [draw(st.booleans()) for _ in range(n)]
    return extra | {
        "inf": inf,
        "holes": holes,
        "W": W, "H": H, "rects": rects,
        "order": draw(st.permutations(list(range(n)))),
        "bottom_up": draw(st.booleans()),
        "ra": draw(st.sampled_from([10.0, 216.3, 359.9, 0.05])),
        "dec": draw(st.sampled_from([0.0, 41.2, -60.0, 85.0])),
        "scale": draw(st.sampled_from([1e-3, 2.7e-4, 0.01])),
        "rot": rot,
        "tile_format": draw(st.sampled_from(["fits", "fits", "npy"])),
        # the reference pixel need not sit on a pixel centre: a common fractional part for all inputs
        "crpix_frac": [draw(st.sampled_from([0.0, 0.0, 0.5, 0.3, 0.123456, 0.7])), draw(st.sampled_from([0.0, 0.0, 0.5, 0.3, 0.9]))],
        "k": draw(st.sampled_from([1, 1, 2, 3, 4])),
    }


def mosaic_array(W, H):
    y, x = np.indices((H, W))
    return (y * W + x + 1).astype(np.float32)


def bbox(case):
    xs0 = min(r[0] for r in case["rects"])
    ys0 = min(r[1] for r in case["rects"])
    xs1 = max(r[0] + r[2] for r in case["rects"])
    ys1 = max(r[1] + r[3] for r in case["rects"])
    return xs0, ys0, xs1, ys1


def header_for(case, x0, y0, w, h, bottom_up):
    """FITS header of the sub-image whose top-left pixel is mosaic pixel (x0, y0) (top-down
    coordinates), stored top-down or bottom-up."""
    from astropy.io import fits

    W, H = case["W"], case["H"]
    s = case["scale"]
    r = math.radians(case["rot"])
    if case["rot"] in (0.0, 90.0, -90.0, 180.0):
        c, sn = float(round(math.cos(r))), float(round(math.sin(r)))
    else:
        c, sn = math.cos(r), math.sin(r)
    hd = fits.Header()
    hd["CTYPE1"] = "RA---TAN"
    hd["CTYPE2"] = "DEC--TAN"
    hd["CRVAL1"] = case["ra"]
    hd["CRVAL2"] = case["dec"]
    hd["CUNIT1"] = "deg"
    hd["CUNIT2"] = "deg"
    # reference pixel: the mosaic centre, in 1-based top-down pixel coordinates of the mosaic
    fx, fy = case.get("crpix_frac", [0.0, 0.0])
    crx, cry = W // 2 + 0.5 + fx, H // 2 + 0.5 + fy
    hd["CDELT1"] = -s
    if not bottom_up:
        # top-down storage: increasing row = decreasing declination: negative parity
        hd["CDELT2"] = -s
        hd["CRPIX1"] = crx - x0
        hd["CRPIX2"] = cry - y0
        pc = np.array([[c, -sn], [sn, c]])
    else:
        # the same picture with rows reversed (FITS-like)
        hd["CDELT2"] = s
        hd["CRPIX1"] = crx - x0
        hd["CRPIX2"] = h + 1 - (cry - y0)
        pc = np.array([[c, sn], [-sn, c]])
    hd["PC1_1"], hd["PC1_2"], hd["PC2_1"], hd["PC2_2"] = [float(v) for v in pc.ravel()]
    if case.get("cd"):
        # the same matrix spelled CDi_j (the spelling under which files of both row orders describe one common grid)
        cdm = np.diag([hd["CDELT1"], hd["CDELT2"]]) @ pc
        for k_ in ("CDELT1", "CDELT2", "PC1_1", "PC1_2", "PC2_1", "PC2_2"):
            del hd[k_]
        hd["CD1_1"], hd["CD1_2"], hd["CD2_1"], hd["CD2_2"] = [float(v) for v in cdm.ravel()]
    return hd


def write_inputs(case, d):
    """Write the sub-images as FITS files. Returns (paths in input order, expected display-orientation
    mosaic of the bounding box with NaN where no input defines a pixel, bounding box)."""
    from astropy.io import fits

    W, H = case["W"], case["H"]
    mos = mosaic_array(W, H)
    for fx, fy, sign in case.get("inf", []):
        # infinite pixel values are data (only NaN means undefined)
        mos[int(fy * (H - 1)), int(fx * (W - 1))] = np.inf if sign > 0 else -np.inf
    bx0, by0, bx1, by1 = bbox(case)
    exp = np.full((by1 - by0, bx1 - bx0), np.nan, dtype=np.float32)
    paths = [None] * len(case["rects"])
    for i, (x0, y0, w, h, border) in enumerate(case["rects"]):
        data = mos[y0 : y0 + h, x0 : x0 + w].copy()
        if border:
            b = min(border, (min(w, h) - 1) // 2)
            if b > 0:
                data[:b, :] = np.nan
                data[-b:, :] = np.nan
                data[:, :b] = np.nan
                data[:, -b:] = np.nan
        for hi, fx, fy, fw, fh in case.get("holes", []):
            if hi == i:
                hx0, hy0 = int(fx * w), int(fy * h)
                data[hy0 : hy0 + max(1, int(fh * h)), hx0 : hx0 + max(1, int(fw * w))] = np.nan
        sub = exp[y0 - by0 : y0 - by0 + h, x0 - bx0 : x0 - bx0 + w]
        m = ~np.isnan(data)
        sub[m] = data[m]
        bu = case["bottom_up_each"][i] if case.get("bottom_up_each") else case["bottom_up"]
        hd = header_for(case, x0, y0, w, h, bu)
        stored = data[::-1] if bu else data
        p = os.path.join(d, f"in{i}.fits")
        fits.writeto(p, np.ascontiguousarray(stored), header=hd, overwrite=True)
        paths[i] = p
    ordered = [paths[i] for i in case["order"]]
    return ordered, exp, (bx0, by0, bx1, by1)


def write_single(case, d, exp, box):
    """The assembled mosaic (bounding box) as one FITS file with the same grid."""
    from astropy.io import fits

    bx0, by0, bx1, by1 = box
    w, h = bx1 - bx0, by1 - by0
    hd = header_for(case, bx0, by0, w, h, case["bottom_up"])
    stored = exp[::-1] if case["bottom_up"] else exp
    p = os.path.join(d, "assembled.fits")
    fits.writeto(p, np.ascontiguousarray(stored), header=hd, overwrite=True)
    return p


def expected_canvas(exp):
    h, w = exp.shape
    p2n = 256
    while p2n < max(w, h):
        p2n *= 2
    canvas = np.full((p2n, p2n), np.nan, dtype=np.float32)
    gx0, gy0 = (p2n - w) // 2, (p2n - h) // 2
    canvas[gy0 : gy0 + h, gx0 : gx0 + w] = exp
    return canvas, p2n.bit_length() - 9


def read_canvas(pio, levels, fmt):
    from toasty.pyramid import Pos

    nt = 2**levels
    canvas = np.full((256 * nt, 256 * nt), np.nan, dtype=np.float32)
    present = set()
    for ty in range(nt):
        for tx in range(nt):
            p = pio.tile_path(Pos(levels, tx, ty), makedirs=False)
            if os.path.exists(p):
                if fmt == "npy":
                    a = np.load(p)
                else:
                    from astropy.io import fits

                    with fits.open(p) as hl:
                        a = np.array(hl[0].data)[::-1]
                canvas[256 * ty : 256 * ty + 256, 256 * tx : 256 * tx + 256] = a
                present.add((tx, ty))
    return canvas, present
