import json, sys
props = {json.loads(l)['id']: json.loads(l) for l in open('/verif/properties.jsonl')}
T = """You are helping to evaluate a verification framework by seeding a realistic defect ("mutant") into a Python library.

WORKSPACE. You work ONLY inside the scratch git worktree {wt} (a checkout of the library WorldWideTelescope/toasty: Python library that builds TOAST and tangential-projection tile pyramids from astronomical images). Never read or write /repo or /verif. Save your deliverables under {out}/ (already exists).
 - Python interpreter: /venv/bin/python (3.12; numpy, astropy, PIL, filelock, hypothesis installed). ALWAYS run with the environment variable PYTHONPATH={wt} so that the worktree's copy of the package is imported; verify once with: PYTHONPATH={wt} /venv/bin/python -c "import toasty; print(toasty.__file__)".
 - The existing test suite: cd {wt} && PYTHONPATH={wt} /venv/bin/python -m pytest -q -p no:cacheprovider --timeout=900 toasty   (takes ~75 s; at baseline 46 tests pass and 3 AVM-related tests fail for lack of the pyavm/network set-up: toasty/tests/test_avm.py::TestAvm::test_check_cli_good, toasty/tests/test_study.py::TestStudy::test_avm, test_avm_from -- ignore those three).
 - Only edit Python sources (.py). The compiled extension toasty/_libtoasty (from _libtoasty.pyx) cannot be rebuilt here (Cython is not installed), so do not edit the .pyx/.c; you may however change how Python code calls it.
 - NEVER use `git stash` (the stash is shared between worktrees of other agents); to switch a patch on and off use `git apply` and `git apply -R` (or `git checkout -- .`). ALWAYS wrap anything that might hang in `timeout 120 ...`. There is no network.

THE PROPERTY (of the library's observable behaviour) that your change must break:

  Title: {title}
  Statement: {statement}
  Quantified over: {quant}
  Why the existing tests cannot settle it: {why}
  Code most relevant: {files}

YOUR TASK. Produce TWO (if you can, THREE) independent, *different* small source changes to toasty, each of which
  (a) breaks the property above (a real behavioural violation of the statement, not a crash at import),
  (b) still imports/compiles, and the existing test suite still gives exactly the same 46 passes (you must actually run the suite with each change applied and confirm),
  (c) is REALISTIC (the kind of slip a maintainer could make in a refactoring or "optimisation": an off-by-one, a swapped index, a wrong condition, a reordered pair of statements, a lost special case, a mis-keyed lock, two cooperating sites that each look fine alone, ...), and
  (d) needs something SPECIFIC to manifest -- a particular interleaving/schedule, a fault at a particular point, a multi-step sequence of operations, an unusual input shape/size/geometry/configuration -- rather than something any ordinary use would expose at once. Prefer subtle over blatant. Make the changes differ in *where* and *how* they break the property (different functions / different clauses of the statement).
For each change N = 1, 2, (3) save:
  {out}/patchN.diff   -- `git diff` output, applicable with `git apply` at the worktree root (check it: git stash/checkout, git apply --check).
  {out}/demoN.py      -- a small stand-alone program (no pytest needed; run as: PYTHONPATH=<tree> /venv/bin/python demoN.py) that exits 0 on the UNCHANGED tree and exits non-zero (with a message explaining the observed violation) when patchN is applied. It must be deterministic or, if it depends on scheduling, must force the schedule (e.g. by controlled delays/monkey-patching) so that it fails reliably (>= 9 of 10 runs) with the patch and never without it. It must finish within 2 minutes and never hang (use timeouts). It must find the tree through the import system (PYTHONPATH), not a hard-coded path, and must use temporary directories for any files.
  {out}/metaN.json    -- {{"property": "{pid}", "summary": "...what was changed...", "needs": "...what specific input/schedule/sequence is needed to manifest...", "files": [...], "tests_pass_with_patch": true, "demo_fails_with_patch": true, "demo_passes_without_patch": true}}
You must personally confirm all of (a)-(d): run the suite with the patch, run the demo with and without the patch. When finished, restore the worktree to a clean state (git checkout -- . ; remove untracked files you created inside it) -- the deliverables live only in {out}/. Do not commit anything.

Finish with a short report: for each patch, one paragraph on what it changes, why tests still pass, and what is needed to see the violation.
"""
for pid in sys.argv[1:]:
    p = props[pid]
    s = T.format(wt=f"/tmp/seed/{pid}", out=f"/tmp/seed/out/{pid}", title=p['title'], statement=p['statement'],
                 quant=p['quantifier']['text'], why=p['why_tests_cant'], files=", ".join(p['anchors']['files']), pid=pid)
    open(f"/tmp/seed/prompt_{pid}.txt","w").write(s)
    print(pid, len(s))
