#!/bin/bash
# tools/round.sh <ID> <round-suffix> : confirm every change a sub-agent left in /tmp/seed/out/<ID><suffix>/ (patchN.diff, demoN.py,
# metaN.json), keep the confirmed ones as seeded/<ID>-<next free number>/, run them against the checks (tools/seedmatrix.sh)
# and remove the agent's scratch worktree.
ID="$1"; R="$2"; SRC="/tmp/seed/out/$ID$R"
cd "$(dirname "$0")/.."
NEW=""
for P in $(ls "$SRC"/patch*.diff 2>/dev/null | sort); do
  N=$(basename "$P" | sed 's/patch\([0-9]*\)\.diff/\1/')
  NEXT=$(( $(ls seeded | grep -E "^$ID-[0-9]+$" | sed "s/$ID-//" | sort -n | tail -1) + 1 ))
  tools/confirm_seed.sh "$ID" "$N" "$SRC" "$NEXT" | tail -2
  [ -d "seeded/$ID-$NEXT" ] && NEW="$NEW $ID-$NEXT"
done
git -C /repo worktree remove --force "/tmp/seed/$ID$R" 2>/dev/null; rm -rf "/tmp/seed/$ID$R"
echo "NEW:$NEW"; [ -z "$SKIP_MATRIX" ] && [ -n "$NEW" ] && MATRIX_OUT=seeded/MATRIX-$R.tsv tools/seedmatrix.sh $NEW
