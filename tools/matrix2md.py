#!/venv/bin/python
"""Rewrite §7 of DESIGN.md from seeded/MATRIX.tsv and seeded/*/meta.json."""
import csv, json, os, re
HERE = os.path.dirname(os.path.dirname(os.path.abspath(__file__)))
rows = list(csv.reader(open(os.path.join(HERE, "seeded", "MATRIX.tsv")), delimiter="\t"))[1:]
out = ["## 7. Which checks catch which seeded changes", "",
       "Independently written breaking changes (sub-agents given only a property's text and a scratch worktree; each keeps the 46",
       "repository tests passing and comes with a demonstration that fails with it and passes without it; all re-confirmed by",
       "`tools/confirm_seed.sh`). `tools/seedmatrix.sh` applies each to a scratch copy of /repo and runs the QUICK tier of the",
       "property's check (and, if that misses, of the related checks). Own sensitivity patches are in `vt/mutants/`.", "",
       "| seeded change | what it changes (author's summary) | caught by (part: [clause]) | not caught by |", "|---|---|---|---|"]
n = c = 0
for r in rows:
    sid, prop, caught, clause, missed = [x.strip() for x in r]
    meta = {}
    try:
        meta = json.load(open(os.path.join(HERE, "seeded", sid, "meta.json")))
    except Exception:
        pass
    summ = (meta.get("summary") or "").replace("|", "/").replace("\n", " ")
    if len(summ) > 230:
        summ = summ[:227] + "..."
    n += 1
    c += caught not in ("-", "")
    out.append(f"| {sid} | {summ} | {caught + ' ' + clause if caught not in ('-', '') else '**not caught**'} | {missed if missed != '-' else ''} |")
out += ["", f"{c} of {n} seeded changes are caught by the quick tier.", "",
        "Not caught, and why: **C15-3** (F16x3 update treats a pixel with NaN in only some channels as defined) - the property's",
        "statement does not say whether such a pixel is defined (`update` reads *any* NaN channel as undefined, `is_completely_masked`",
        "reads *all*), so the check does not generate partially-NaN colour pixels and cannot see it; asserting either reading would be",
        "a check that demands more than the property states. **C18-2** (publish skips files already present in the store) stopped",
        "violating the property on the real local store once fix #11 made its writes atomic (presence then implies completeness); it is",
        "caught again through the non-atomic store variant that C18 also runs. **C04-3**, **C05-3**, **C10-3**, **C13-3** break a clause",
        "that another property's check owns (point containment: C12; leaf geometry under a filtered planetary pyramid: C03; the tilers'",
        "lock-file clean-up: C03/C09 on Engine A with critical-section yields; parallel seeding: C01) and are caught there.",
        "Likewise **C04-4**, **C04-5**, **C05-5**, **C05-6** (round 2) change only the point / pixel *look-up*: the tile that is",
        "returned is the wrong one for the point, but its corners are still the right ones for the position it reports and every",
        "grid is unchanged, so C04 and C05 hold and C12 (the look-up returns the tile / pixel containing the point) is what breaks;",
        "**C03-4** breaks failure reporting (C19) and **C09-6** the recorded data range (C14).",
        "Round 2 also led to new generators in the owning checks: level-0 grid (C05-4), collections of FITS images against the",
        "unfiltered pipeline (C07-4), poles anywhere inside an edge pixel probed 16384x deeper than the image scale (C07-5),",
        "whole-tile holes over a re-tiled directory, tiles holding only +-inf, a tiling nested inside another one's write (C08-4..6),",
        "histories of pyramids in one process (C13-5), transient faults (C18-4..6), deep look-ups to level 26 (C12), requests",
        "larger than a tile and of odd shapes (C11-5), several image objects handled one after another and 1-6 flips per object",
        "(C16-4, C16-6), `FitsTiler(add_place_for_toast=False)` and a transient read error on the reused index (C17-7, C17-8),",
        "depth-4 walks in the quick tier of C03 (C03-7), an entirely undefined quartet under a left-over parent (C02-3, which the",
        "quick tier had caught at one seed in three). Round 3 (C05, C07, C08, C13): one box filter asked about tiles of both",
        "systems (C07-8), RA = 0 placed on a chosen point of the image's boundary, mostly next to the first corner, with deep probes",
        "beside it (C07-9), PIL-backed and parity-flipped images in the study tiler (C08-7), tiles handed out by Pyramid objects /",
        "lazily consumed enumerations while the other system is in use (C05-7, C05-9), use of a pyramid after a refused",
        "sub-pyramid request (C13-8). **C05-8** makes `create_single_tile` return array corners that a box filter then sorts in",
        "place: the clause that breaks is C07's 'never modifies the tile it inspects', and C07 reports it. Round 3 for C02, C06,",
        "C11, C16 added: a pyramid re-opened with its format guessed from the files, in a directory whose name has a dot (C02-8);",
        "sampling through `Builder.toast_base` with `is_planet` / explicit `coordsys` (C06-8) and samplers with +inf regions",
        "(C06-9); requests handed over as read-only / integer / shared / re-used arrays (C11-7, C11-8); an explicit LONPOLE and a",
        "description built on the object's own WCS object flipped first (C16-8, C16-9). The rest of round 3 (C01, C03, C04, C09,",
        "C10, C12, C14, C15, C17, C18, C19, C20): integer FITS pyramids and depth-0 pyramids in C14 (C14-8, C14-9); tiles read after",
        "a loader with `--black-to-transparent` was used in the process, pure-black pixels (C15-9); the filtered route under the",
        "library's own box filter (C04-8); fault points inside the store's write and source files that cannot be opened (C18-8,",
        "C18-9; C18-7 showed that the check had judged HOW a failure is reported, which it no longer does); Engine B's",
        "`after-release` gate, freshly started interpreters and whole sampling jobs as gated programs (C10-7..9); inputs with",
        "infinite pixels (C09-7); two-image TOAST collections with the base level chosen by toasty (C17-9); 1-D scan rows as",
        "explicitly selectable HDUs and the blank key inside a `--wcs-key` list (C20-7, C20-8); a failure in the dispatching",
        "process of the multi-WCS tiler (C19-8). **C04-7** (short-circuited containment score) changes which tile a look-up",
        "returns, not the tile's corners: C12's clause.", ""]
p = os.path.join(HERE, "DESIGN.md")
s = open(p).read()
i = s.index("## 7. Which checks catch which seeded changes")
s = s[:i] + "\n".join(out)
open(p, "w").write(s)
print(c, "of", n)
