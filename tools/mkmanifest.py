#!/venv/bin/python
"""Generate /verif/MANIFEST.json from the table below and validate it."""
import json
import os
import sys

HERE = os.path.dirname(os.path.dirname(os.path.abspath(__file__)))

PBT = "property-based testing (Hypothesis generators + shrinking) against a reference model"

CHECKS = {
    "C01": dict(
        level="exploration",
        engine="simsched",
        technique="property-based testing with generated process schedules on a deterministic simulation of multiprocessing; oracle = reference model of live tiles (RefPyramid) + history invariant (children end before parent starts); exhaustive enumeration of depth-2 filters (thorough)",
        text="Generated pyramids (kind, depth, filter incl. gap filters, apex), worker counts 1..8 and generated interleavings of dispatcher, feeder and worker steps incl. time-outs; the real dispatcher/worker code runs on simulated Queue/Event/Process. Held on everything explored; nothing is proved. Exploration is the right level because the schedule space is unbounded and the oracle is executable.",
        note="Trusts the simulator's model of multiprocessing.Queue/Event/Process (validated against real multiprocessing by the realmp part), RefPyramid, and that callbacks are atomic except at their checkpoint.",
        design="DESIGN.md §3 C01, §2.2",
    ),
    "C13": dict(
        level="exploration",
        engine="direct",
        technique="exhaustive enumeration of small finite sub-spaces + property-based testing (Hypothesis) + coverage-guided fuzzing (atheris/libFuzzer, oracle inside the target) against a reference model (RefPyramid); differential full-vs-sub-pyramid",
        text="Every position to depth 7/9 for the position algebra, every depth-2 filter (canonical in quick, all 2^20 in thorough) and every apex, plus generated (kind, depth<=5/6, filter, apex) pyramids; counters, enumerators and the callbacks actually made are compared with an independent model.",
        note="Trusts RefPyramid (60 lines, written from the documentation). Filters are position predicates, plus filters that decide by the tile's sky position (reference set from RefToast in the pyramid's coordinate system); image-footprint filters belong to C07.",
        design="DESIGN.md §3 C13",
    ),
}

CHECKS["C03"] = dict(
    level="exploration",
    engine="simsched",
    technique="property-based testing with generated process schedules on a deterministic simulation of multiprocessing; oracle = reference item set (RefPyramid leaves / all positions / inputs) as a multiset + termination/worker-exit invariants; each leaf's geometry vs RefToast",
    text="Leaf visits, pyramid-wide transforms and multi-image tiling run their real producer/worker code on simulated Queue/Event/Process under generated interleavings (feeder flushes, receive time-outs, shutdown signal). Exactly-once delivery, own geometry, worker exit and termination held on everything explored after the fix of the lost-last-item race that this check found.",
    note="Trusts Engine A's model of the primitives and RefPyramid/RefToast; items are compared as multisets against the serial item set.",
    design="DESIGN.md §3 C03, §2.2",
)
CHECKS["C19"] = dict(
    level="exploration",
    engine="simsched",
    technique="fault injection (one failing item at a generated position) x generated schedules on the simulated multiprocessing; oracle = the public call raises in the caller (no normal return, structural hang detection)",
    text="For walk, leaf visits and transforms, with one generated failing item, every worker count 1..8 and generated interleavings: the call raised in the caller in every explored case (after the fix that this check motivated).",
    note="Trusts Engine A (worker exception -> exit code 1, as multiprocessing.Process) and the structural hang oracle (dead-lock, or a quiescent state in which only time-outs can fire for 50 x processes steps).",
    design="DESIGN.md §3 C19",
)

CHECKS["C04"] = dict(
    level="exploration",
    engine="direct",
    technique="exhaustive enumeration to a depth bound + property-based testing (Hypothesis) against an independent reference model of the TOAST projection (RefToast, unit vectors); differential between the four construction routes; metamorphic area relations",
    text="All tiles of every level to depth 6 (quick) / 8 (thorough) in both coordinate systems are compared corner by corner with an independently written model of the documented layout, plus direct structure checks on toasty's own output (shared vertices, nesting, great-circle edges) and area relations; the filtered, single-tile and point-lookup routes are sampled to depth 24.",
    note="Trusts RefToast (vt/reftoast.py, ~150 lines written from the module docstring); tolerance 1e-12+1e-14*depth rad on unit vectors.",
    design="DESIGN.md §3 C04, §2.5",
)
CHECKS["C05"] = dict(
    level="exploration",
    engine="direct",
    technique="exhaustive enumeration of tiles to a depth bound (all 65536 pixels each) + Hypothesis-sampled deep tiles, against RefToast pixel centres; differential with the Python-side subdivision route",
    text="Every pixel of every tile to depth 3 (quick) / 5 (thorough) and of generated tiles to depth 16, in both systems evaluated in one process, equals the reference centre of the tile 8 levels deeper, lies inside its tile and inside the corners' latitude range.",
    note="Trusts RefToast; the compiled subdivision is checked as built (.so), see assumptions in the evidence.",
    design="DESIGN.md §3 C05",
)
CHECKS["C12"] = dict(
    level="exploration",
    engine="direct",
    technique="property-based testing (Hypothesis) with structural point generators (vertices, edges, seam, poles, shifted longitudes) against RefToast point-in-tile and nearest-pixel oracles; metamorphic relation lon -> lon+2*pi*k; nesting invariant across depths",
    text="Generated points x depth x coordinate system: returned tile contains the point (reference geometry), lookups nest across depths and are 2*pi-periodic; fractional pixel within 2 px of the angularly nearest reference pixel centre for points >= 1 degree from the poles. Held on everything explored after two fixes this check motivated.",
    note="Trusts RefToast; containment tolerance 1e-9 rad; points within tolerance of a shared edge may resolve to either tile.",
    design="DESIGN.md §3 C12",
)

CHECKS["C11"] = dict(
    level="exploration",
    engine="direct",
    technique="property-based testing (Hypothesis) with boundary-aimed point generators against a long-double reference model of the documented plate-carree layouts (RefPlateCarree); metamorphic relation lon -> lon+2*pi*k; independent ICRS->Galactic rotation",
    text="Six sampler variants x map shapes 1..64 (incl. 1-pixel axes, colour planes) x generated request arrays (any real longitude, exact cell boundaries, poles): every returned value is an admissible source pixel under the documented layout; shapes and index ranges are right. Held on everything explored after the Galactic sampler fix.",
    note="Trusts the layout reading of the samplers' docstrings; boundary tolerance 1e-9 cells (1e-5 for Galactic); the ecliptic sampler is judged on layout-free clauses only.",
    design="DESIGN.md §3 C11",
)
CHECKS["C16"] = dict(
    level="exploration",
    engine="direct",
    technique="property-based testing (Hypothesis) over generated linear celestial WCS and object kinds; round-trip / metamorphic oracle: world(x,y) before = world(x,h-1-y) after the flip (unit vectors), rows reversed, idempotence of ensure_negative_parity",
    text="Generated WCS (5 projections, any rotation incl. exact right angles, skew, both parities, CRPIX inside/outside, CD or PC+CDELT) x sizes 1..200 x Image (array / PIL-backed, cached or not) and ImageDescription (2-D and colour shapes) x operation sequences.",
    note="Trusts astropy's wcs_pix2world as the definition of a pixel's sky position; tolerance 1e-10 rad.",
    design="DESIGN.md §3 C16",
)

CHECKS["C15"] = dict(
    level="exploration",
    engine="direct",
    technique="property-based testing (Hypothesis) against a pure-numpy reference model of fill/update; model-based generated operation histories (write / read / update / external file) on one pyramid directory with an invariant checked after every step",
    text="All eight image modes x generated shapes, rectangle indexers (incl. reversed rows and the paired index arrays of the chunk sampler) and mask patterns for the buffer semantics; generated histories per (format, mode, naming scheme, explicit-vs-default format) for tile persistence, with independent decoders.",
    note="Trusts the numpy model (40 lines) and numpy/astropy/PIL decoders. Partially-NaN colour pixels and negative integers are not generated (the statement leaves them open).",
    design="DESIGN.md §3 C15",
)
CHECKS["C08"] = dict(
    level="exploration",
    engine="direct",
    technique="exhaustive enumeration per axis (1..1300 quick / 1..4200 thorough x boundary sizes) + property-based testing (Hypothesis) against the closed-form RefStudy model; round trip tile -> independent decode -> re-assembly -> compare with the centred image",
    text="Arithmetic layer exhaustively per axis to the bound, sub-images sampled to 5000 px, and the I/O layer (all modes, png/npy/fits, whole images and sub-images) read back with independent decoders.",
    note="Trusts RefStudy (power-of-two square, floor-centred offsets) and the decoders; images > 1100 px are not written in the I/O part.",
    design="DESIGN.md §3 C08",
)
CHECKS["C20"] = dict(
    level="exploration",
    engine="direct",
    technique="property-based testing (Hypothesis) over generated multi-extension FITS collections and selectors, against a reference model of HDU / WCS-key resolution; differential across four routes (load, SimpleFitsCollection, argparse options, tile_fits plumbing)",
    text="1-5 generated files with distinguishable HDUs and alternate WCS solutions x none/scalar/per-file selectors x routes: descriptions, images and export_simple all refer to the selected HDU and solution, in input order. Held on everything explored after the fix of the per-file index list.",
    note="Selectors always name a valid image HDU / existing key.",
    design="DESIGN.md §3 C20",
)
CHECKS["C18"] = dict(
    level="fault_enumeration",
    engine="direct",
    technique="fault injection with exhaustive enumeration of every crash/failure point per generated case (before/mid/after each transfer, before/after rename; failure = OSError, crash = os._exit in a forked child) + Hypothesis-generated file sets, directory orders and fault sequences; oracle = store invariants after every run + completion after a clean re-run + refresh behaviour",
    text="For each generated set of approved images and directory listing order every single fault point is enumerated in both modes, plus generated sequences of 1-3 faults; invariants are checked after every run against the real LocalPipelineIo store. Held on everything explored after the atomic-write fix.",
    note="Crash granularity is the transfer boundary and half-way through a transfer's data; the Azure store is not exercised.",
    design="DESIGN.md §3 C18",
)

CHECKS["C02"] = dict(
    level="exploration",
    engine="simsched",
    technique="property-based testing (Hypothesis) of generated sparse pyramids against a reference model of the 2x2 block reduction (RefCascade), outputs read with independent decoders; differential serial vs parallel (Engine A schedules, real multiprocessing sampled)",
    text="Generated sparse leaf populations x formats/modes/parities x undefined-pixel patterns x stale files x tile filters x worker counts: tile existence and every pixel of every level are compared with the reference reduction; parallel results must equal serial ones.",
    note="Trusts RefCascade, the independent decoders, Engine A for the schedule clause (real multiprocessing sampled). jpg judged approximately (+-6 levels on block-constant grey leaves). Floats: absolute tolerance 4*eps*max|leaf value|.",
    design="DESIGN.md §3 C02",
)
CHECKS["C14"] = dict(
    level="exploration",
    engine="simsched",
    technique="property-based testing (Hypothesis) of generated FITS pyramids; oracle = min/max over the generated leaf arrays beneath every tile vs the DATAMIN/DATAMAX headers read with astropy, and the WTML / Builder values vs the root's",
    text="Generated sparse FITS pyramids (values incl. exact zeros, negatives, NaN regions; leaves written directly or painted in two read-modify-write passes) cascaded through Builder.cascade serially, on Engine A and on real multiprocessing; every tile's recorded range equals the true range of the leaves beneath it.",
    note="Trusts astropy header I/O; float32 rounding tolerance 1.2e-7; a zero-valued WTML attribute may be omitted (format default).",
    design="DESIGN.md §3 C14",
)

CHECKS["C06"] = dict(
    level="exploration",
    engine="simsched",
    technique="property-based testing (Hypothesis) of generated sampling histories against RefToast pixel centres and smooth harness samplers (direct oracle: sampler evaluated at the reference centre of each pixel), independent decoders; serial, Engine A schedules and real multiprocessing",
    text="Depth 0-3(4), both coordinate systems, npy/fits/png/jpg tiles, scalar and colour samplers with undefined regions, clobber and update calls in sequence, worker counts 1-4: every pixel of every expected tile equals the sampler at that tile's own pixel centre; existence matches the filter's leaves. Held after two fixes this check motivated (depth 0; RGB update into 3-channel tiles).",
    note="Trusts RefToast; pixels within 1e-9 of a sampler's cap boundary are not judged; jpg +-8 on grey smooth fields.",
    design="DESIGN.md §3 C06",
)
CHECKS["C09"] = dict(
    level="exploration",
    engine="simsched",
    technique="property-based testing (Hypothesis) of generated mosaics and decompositions; oracle = the assembled mosaic pasted into the RefStudy canvas (tiles decoded independently) + differential N inputs vs one assembled input + astrometry recomputed independently from the generated grid; Engine A schedules with critical-section yields, real multiprocessing sampled",
    text="1-6 overlapping sub-images with NaN borders on a common (possibly rotated) TAN grid, both storage parities, any input order, fits/npy tiles, 1-4 workers: deepest-level tiles equal tiling the assembled mosaic, the ImageSet/Place equal both the single-image route and an independent computation, no lock files remain.",
    note="Overlapping inputs agree by construction. Engine A treats the tile read and write as yield points with the real SoftFileLock; real OS interleavings are sampled.",
    design="DESIGN.md §3 C09",
)
CHECKS["C10"] = dict(
    level="exploration",
    engine="gated",
    technique="schedule-controlled concurrency testing: real forked processes + real filelock, every lock attempt / read / write start / write middle / release gated and ordered by a Hypothesis-generated schedule; oracle = sequential application of the updates in write-completion order, no decode failure, no dead-lock",
    text="2-4 updater processes x 1-3 updates x 1-2 tiles x disjoint/overlapping rectangles under generated gate orders: the final tile always equalled the sequential result and no reader saw a half-written tile.",
    note="Gate granularity as listed; O_CREAT|O_EXCL atomicity trusted; float32 tiles in npy/fits.",
    design="DESIGN.md §3 C10, §2.3",
)
CHECKS["C17"] = dict(
    level="exploration",
    engine="direct",
    technique="exhaustive enumeration of positions to depth 6 for both naming schemes + property-based testing (Hypothesis) of workflows and of call histories; oracle = WWT-client expansion of the WTML Url template vs the directory tree (both directions) and the reference population (RefStudy / TOAST levels); round trip returned Builder -> XML vs index_rel.wtml after every call of a history",
    text="Both schemes x 4 formats x every position to depth 6 and sampled to depth 20; tile-study and tile-allsky CLI (+cascade), tile_fits TAN/TOAST; histories of tile_fits calls (fresh, repeat, override, other parallelism) on one directory. Held after the fix of the reuse path this check motivated.",
    note="WWT clients expand {1},{2},{3}. The pipeline's process-todos workflow runs with a harness image source (LXY scheme).",
    design="DESIGN.md §3 C17",
)

CHECKS["C07"] = dict(
    level="exploration",
    engine="direct",
    technique="property-based testing (Hypothesis) with probes constructed at the extremes of each footprint / box / chunk (RefToast point location), direct oracle = any reference pixel centre inside => filter accepts tile and all ancestors, tile unchanged; differential filtered vs exhaustive sampling; chunk-by-chunk vs whole-map sampling against RefPlateCarree",
    text="Box filters (any longitude origin, widths beyond 2*pi, poles, seam), image-footprint filters (1-120 px, five projections, any rotation/parity/position incl. RA 0) probed at their latitude/longitude extremes with sub-pixel inward shifts over a 1/1024..4 range of resolutions, and chunk filters of generated chunk grids; plus end-to-end comparisons. Held on everything explored after two fixes this check motivated.",
    note="A pixel centre counts as holding image data when >= 0.05 px inside the footprint (second-order residual of per-pixel bound refinement); images whose pixel grid leaves the projection's domain are skipped.",
    design="DESIGN.md §3 C07",
)

NOT_APPLICABLE = {}


def main():
    props = [json.loads(l) for l in open(os.path.join(HERE, "properties.jsonl"))]
    ids = [p["id"] for p in props]
    checks = []
    for pid in ids:
        c = CHECKS.get(pid)
        if not c:
            continue
        checks.append(
            {
                "property_id": pid,
                "quick_cmd": f"./check {pid} quick",
                "thorough_cmd": f"./check {pid} thorough",
                "evidence_file": f"evidence/{pid}.json",
                "replay_cmd_template": f"./check {pid} --replay {{path}}",
                "engine": c["engine"],
                "level_claimed": {"category": c["level"], "text": c["text"], "design_ref": c["design"]},
                "level_note": c["note"],
                "technique": c["technique"],
            }
        )
    na = []
    for pid in ids:
        if pid not in CHECKS:
            na.append({"property_id": pid, "reason": NOT_APPLICABLE.get(pid, "check not built yet (planned in DESIGN.md §3); nothing is claimed for this property at this commit")})
    man = {
        "version": 1,
        "setup_cmd": "./setup.sh",
        "hooks": {
            "guard": "TOASTY_VERIF",
            "enable": "no source hooks: all instrumentation is applied from /verif at run time by replacing attributes of multiprocessing / filelock / toasty objects inside the check processes; ./check exports TOASTY_VERIF=1 for symmetry",
            "baseline_off_cmd": "cd /repo && env -u TOASTY_VERIF /venv/bin/python -m pytest -ra -q -p no:cacheprovider --timeout=900 --continue-on-collection-errors",
            "source_commits": [],
            "add_only": True,
        },
        "engines": [
            {"name": "direct", "path": "vt/run.py", "serves_properties": [c["property_id"] for c in checks], "kind_free_text": "runner: Hypothesis / exhaustive enumeration / atheris campaigns driving the real code, sharded over 16 processes; every reported failure is re-executed from its replay file in a fresh interpreter"},
            {"name": "simsched", "path": "vt/simsched.py", "serves_properties": ["C01", "C02", "C03", "C06", "C09", "C14", "C19"], "kind_free_text": "Engine A: deterministic in-process simulation of multiprocessing Queue/Event/Process; scheduler driven by a generated choice sequence, priority policy, slow-process windows; feeder flushes and time-outs are schedulable; structural hang detection"},
            {"name": "gated", "path": "vt/gated.py", "serves_properties": ["C10"], "kind_free_text": "Engine B: real forked processes + real filelock; lock attempt / read / write start / write middle / release / after-release, and every file-system call the pyramid module itself makes during a read-modify-write, are gates opened by the controller in a generated order; optional injected failure of one lock-marker creation"},
            {"name": "realmp", "path": "vt/checks (parts whose engine starts with 'R (')", "serves_properties": ["C02", "C06", "C09", "C14"], "kind_free_text": "Engine R: the public entry point on real multiprocessing (2-4 workers); validates Engine A's verdicts on samples; replays tried 5 times"},
            {"name": "fuzz", "path": "vt/fuzzshard.py", "serves_properties": ["C13"], "kind_free_text": "coverage-guided fuzzing (atheris/libFuzzer) with the semantic oracle inside the target"},
        ],
        "checks": checks,
        "not_applicable": na,
        "notes": "All checks: ./check <ID> quick|thorough (VERIF_SEED honoured); violations are written to out/violations/<ID>/ and re-executed in a fresh process before being reported; KNOWN_FINDINGS.txt lists genuine defects (open / fixed).",
    }
    path = os.path.join(HERE, "MANIFEST.json")
    with open(path, "w") as f:
        json.dump(man, f, indent=1)
    sys.path.insert(0, os.path.join(HERE, ".deps"))
    try:
        import jsonschema

        jsonschema.validate(man, json.load(open(os.path.join(HERE, "schemas", "MANIFEST.schema.json"))))
        print("MANIFEST.json valid;", len(checks), "checks;", len(na), "not_applicable")
    except ImportError:
        print("jsonschema not available; MANIFEST.json written unvalidated")


if __name__ == "__main__":
    main()
