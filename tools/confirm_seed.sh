#!/bin/bash
# tools/confirm_seed.sh <ID> <n> [srcdir [keep-as-n]]: confirm a seeded change independently in a fresh scratch worktree:
#  - patch applies, the 46 baseline tests still pass with it,
#  - the demonstration fails with the patch and passes without it.
# On success the change is kept as /verif/seeded/<ID>-<n>/ (patch.diff, demo.py, meta.json).
ID="$1"; N="$2"; SRC="${3:-/tmp/seed/out/$ID}"; DN="${4:-$N}"   # DN: number under which the change is kept
WT="$(mktemp -d /tmp/confirm-$ID-$N.XXXXXX)"; rmdir "$WT"
LOG="/tmp/confirm-$ID-$N.log"; : > "$LOG"
cleanup() { git -C /repo worktree remove --force "$WT" >/dev/null 2>&1; rm -rf "$WT"; }
trap cleanup EXIT
git -C /repo worktree add -q --detach "$WT" HEAD || exit 2
cp /repo/toasty/_libtoasty*.so /repo/toasty/_libtoasty.c "$WT/toasty/"
export PYTHONPATH="$WT" PYTHONDONTWRITEBYTECODE=1
cd "$WT"
timeout 300 /venv/bin/python "$SRC/demo$N.py" >>"$LOG" 2>&1; RC_CLEAN=$?
git apply "$SRC/patch$N.diff" >>"$LOG" 2>&1 || { echo "$ID-$N: PATCH DOES NOT APPLY"; exit 1; }
timeout 300 /venv/bin/python "$SRC/demo$N.py" >>"$LOG" 2>&1; RC_PATCHED=$?
OUT=$(timeout 1500 /venv/bin/python -m pytest -q -p no:cacheprovider --timeout=900 toasty 2>&1 | tail -8)
echo "$OUT" >>"$LOG"
PASSED=$(echo "$OUT" | grep -oE "[0-9]+ passed" | grep -oE "[0-9]+")
FAILED=$(echo "$OUT" | grep -oE "[0-9]+ failed" | grep -oE "[0-9]+")
FAILNAMES=$(echo "$OUT" | grep -E "^FAILED" | grep -vE "test_check_cli_good|test_avm" | wc -l)
echo "$ID-$N: demo clean rc=$RC_CLEAN, demo patched rc=$RC_PATCHED, tests passed=$PASSED failed=$FAILED unexpected_failures=$FAILNAMES"
if [ "$RC_CLEAN" = 0 ] && [ "$RC_PATCHED" != 0 ] && [ "$RC_PATCHED" != 124 ] && [ "$PASSED" = 46 ] && [ "$FAILNAMES" = 0 ]; then
  D="/verif/seeded/$ID-$DN"; mkdir -p "$D"
  cp "$SRC/patch$N.diff" "$D/patch.diff"; cp "$SRC/demo$N.py" "$D/demo.py"
  /venv/bin/python - "$SRC/meta$N.json" "$D/meta.json" "$ID" "$RC_CLEAN" "$RC_PATCHED" "$PASSED" <<'PY'
import json, sys
src, dst, pid, rc_clean, rc_patched, passed = sys.argv[1:]
try: m = json.load(open(src))
except Exception: m = {}
m["property"] = pid
m["confirmed"] = {"how": "tools/confirm_seed.sh in a fresh scratch git worktree of /repo HEAD (removed afterwards)",
  "demo_rc_unchanged_tree": int(rc_clean), "demo_rc_with_patch": int(rc_patched),
  "pytest_passed_with_patch": int(passed), "pytest_cmd": "python -m pytest -q -p no:cacheprovider --timeout=900 toasty (only the 3 baseline AVM failures)"}
json.dump(m, open(dst, "w"), indent=1)
PY
  echo "$ID-$N: KEPT in $D"
else
  echo "$ID-$N: NOT KEPT (see $LOG)"
fi
