#!/bin/bash
# tools/mutants.sh : run every own sensitivity patch vt/mutants/<ID>_*.diff against the quick check of <ID>;
# every one must be reported (exit 1). Prints a summary; exit 0 iff all were caught.
cd "$(dirname "$0")/.."
MISS=0
for P in vt/mutants/*.diff; do
  ID=$(basename "$P" | cut -d_ -f1)
  R=$(tools/mutant.sh "$P" "$ID" 2>&1 | grep "^== ")
  echo "$R" | cut -c1-160
  echo "$R" | grep -q "rc=1" || MISS=$((MISS+1))
done
echo "own mutants not caught: $MISS"
exit $MISS
