#!/bin/bash
# tools/allquick.sh [seed ...] : run every registered quick check at the given seeds (default 1)
# on the unchanged tree, evidence to a scratch dir; prints one line per check and a summary.
cd "$(dirname "$0")/.."
SEEDS="${@:-1}"
BAD=0
for S in $SEEDS; do
  for ID in $(/venv/bin/python -c "import json;print(' '.join(c['property_id'] for c in json.load(open('MANIFEST.json'))['checks']))"); do
    T0=$(date +%s)
    OUT=$(VERIF_SEED=$S VT_EVIDENCE_DIR=/tmp/ev-allquick ./check $ID quick 2>&1); RC=$?
    T1=$(date +%s)
    echo "seed=$S $ID rc=$RC $((T1-T0))s :: $(echo "$OUT" | tail -1)"
    if [ $RC -ne 0 ]; then BAD=$((BAD+1)); echo "$OUT" | grep -E "VIOLATION|HARNESS|violation in" | head -5; fi
  done
done
echo "non-zero exits: $BAD"
rm -rf /tmp/ev-allquick
