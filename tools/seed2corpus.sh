#!/bin/bash
# tools/seed2corpus.sh [ID-n ...] : for every seeded change (or the named ones) run the check that catches it (per
# seeded/MATRIX.tsv) against a scratch copy with the change applied, and keep the shrunk failing case as a regression
# input replays/<check>/seeded-<ID-n>.json -- provided it PASSES on the unchanged tree.
cd "$(dirname "$0")/.."
LIST="${@:-$(cut -f1 seeded/MATRIX.tsv | grep -E '^C[0-9]+-[0-9]+$')}"
for S in $LIST; do
  [ -f seeded/$S/patch.diff ] || continue
  X=$(awk -F'\t' -v s="$S" '$1==s{print $3}' seeded/MATRIX.tsv | grep -oE "C[0-9]+" | head -1)
  [ -z "$X" ] && { echo "$S: not caught, skipped"; continue; }
  [ -f replays/$X/seeded-$S.json ] && { echo "$S: already in the corpus"; continue; }
  R=$(tools/mutant.sh seeded/$S/patch.diff $X 2>&1)
  F=$(echo "$R" | grep -oE "VIOLATION property=$X replay=[^ ]+" | head -1 | sed 's/.*replay=//')
  [ -z "$F" ] || [ ! -f "$F" ] && { echo "$S: no replay file ($X)"; continue; }
  if VT_EVIDENCE_DIR=/tmp/ev-s2c ./check $X --replay "$F" >/dev/null 2>&1; then
    mkdir -p replays/$X; cp "$F" replays/$X/seeded-$S.json; echo "$S: kept replays/$X/seeded-$S.json"
  else
    echo "$S: replay does not pass on the unchanged tree ($F) - NOT kept"
  fi
done
