#!/bin/bash
# tools/mutant.sh <patch.diff> <ID>[,<ID>...] [tier] : apply a patch to a scratch copy of /repo
# (outside /repo and /verif), run the given checks against it, remove the copy.
# exit 0 when every listed check reported a VIOLATION (mutant caught), 1 otherwise.
PATCH="$(realpath "$1")"; IDS="$2"; TIER="${3:-quick}"
SCR="$(mktemp -d /tmp/vt-mut.XXXXXX)"
trap 'rm -rf "$SCR"' EXIT
rsync -a --exclude .git --exclude '__pycache__' /repo/ "$SCR/"
( cd "$SCR" && patch -p1 -s < "$PATCH" ) || { echo "PATCH-FAILED $PATCH"; exit 2; }
find "$SCR" -name '*.pyc' -delete
ALL=0
for ID in ${IDS//,/ }; do
  OUT=$(VT_REPO="$SCR" VT_EVIDENCE_DIR="$SCR/.evidence" /verif/check "$ID" "$TIER" 2>&1); RC=$?
  echo "$OUT" | grep -E "VIOLATION|HARNESS-ERROR|KNOWN-FINDING|violation in part" | head -5
  echo "== $(basename "$PATCH") $ID rc=$RC: $(echo "$OUT" | tail -1)"
  [ $RC -eq 1 ] || ALL=1
done
exit $ALL
