#!/bin/bash
# tools/seedmatrix.sh [ID-n ...] : run every seeded change (or the named ones) against the check of its
# property and, if that does not catch it, against the related checks listed below. Writes seeded/MATRIX.tsv.
cd "$(dirname "$0")/.."
declare -A ALSO=( [C10-10]="C09 C03" [C05-10]="C06" [C04-10]="C12" [C04-11]="C12" [C01-12]="C03 C06 C13" [C07-11]="C09 C02 C15" [C03-13]="C01" [C09-12]="C10" [C14-12]="C15 C06" [C08-11]="C17" [C06-11]="C15" [C20-11]="C17" [C19-7]="C01" [C19-8]="C03" [C19-9]="C03 C09" [C03-11]="C01" [C17-9]="C07 C14" [C01-7]="C19 C03" [C01-9]="C13" [C10-9]="C06" [C09-7]="C02 C15" [C09-9]="C10 C03" [C18-7]="" [C04-7]="C12" [C04-8]="C07" [C14-7]="C02 C03" [C14-9]="C17" [C02-7]="C01 C19" [C02-8]="C17" [C02-9]="C15 C08" [C06-7]="C03" [C06-9]="C15 C08" [C07-7]="C06" [C08-7]="C16 C15" [C08-8]="C15" [C08-9]="C15" [C05-7]="C04" [C05-8]="C04 C07" [C05-9]="C03 C06 C13" [C03-7]="C01" [C03-8]="C01" [C04-4]="C12" [C04-5]="C12" [C05-4]="C06" [C05-5]="C12" [C05-6]="C12" [C07-4]="C14" [C07-6]="C06" [C08-4]="C15" [C08-5]="C15" [C03-4]="C19" [C09-6]="C14" [C17-1]="C09" [C04-3]="C12" [C05-3]="C03 C06" [C13-3]="C01 C03" [C10-3]="C03 C09" [C09-1]="C10" [C02-2]="C01" [C03-2]="C01" [C01-2]="C13" )
LIST="${@:-$(ls seeded | grep -E '^C[0-9]+-[0-9]+$' | sort)}"
OUT=${MATRIX_OUT:-seeded/MATRIX.tsv}
[ $# -eq 0 ] && printf "seed\tproperty\tcaught_by\tclause\tnot_caught_by\n" > $OUT
for S in $LIST; do
  P=${S%-*}
  CAUGHT=""; MISSED=""; CLAUSE=""
  for ID in $P ${ALSO[$S]}; do
    R=$(tools/mutant.sh seeded/$S/patch.diff $ID 2>&1)
    if echo "$R" | grep -q "rc=1"; then
      CAUGHT="$CAUGHT $ID"
      [ -z "$CLAUSE" ] && CLAUSE=$(echo "$R" | grep -oE "violation in part [a-z_0-9]+: \[[a-z-]+\]" | head -1 | sed 's/violation in part //')
      break
    else
      MISSED="$MISSED $ID"
    fi
  done
  printf "%s\t%s\t%s\t%s\t%s\n" "$S" "$P" "${CAUGHT:- -}" "${CLAUSE:- -}" "${MISSED:- -}" | tee -a $OUT
done
