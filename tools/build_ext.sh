#!/bin/bash
# Rebuild toasty/_libtoasty from the working tree when possible:
#  - .pyx newer than .c and Cython importable -> cythonize
#  - .c newer than the .so (or no .so)        -> gcc
# Otherwise the .so is used as found (recorded in the evidence assumptions).
set -e
REPO="${1:-/repo}"
PY="${VT_PYTHON:-/venv/bin/python}"
cd "$REPO/toasty"
SUF=$($PY -c "import sysconfig;print(sysconfig.get_config_var('EXT_SUFFIX'))")
SO="_libtoasty$SUF"
if [ -f _libtoasty.pyx ] && { [ ! -f _libtoasty.c ] || [ _libtoasty.pyx -nt _libtoasty.c ]; }; then
  if $PY -c "import Cython" 2>/dev/null; then
    $PY -m cython -3 _libtoasty.pyx -o _libtoasty.c
  fi
fi
if [ -f _libtoasty.c ] && { [ ! -f "$SO" ] || [ _libtoasty.c -nt "$SO" ]; }; then
  INC=$($PY -c "import sysconfig,numpy;print('-I'+sysconfig.get_paths()['include'],'-I'+numpy.get_include())")
  gcc -shared -fPIC -O2 -fwrapv $INC -DNPY_NO_DEPRECATED_API=NPY_1_7_API_VERSION -o "$SO.tmp" _libtoasty.c -lm
  mv "$SO.tmp" "$SO"
fi
exit 0
