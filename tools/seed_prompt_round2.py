import json, sys, os, glob
sys.argv_ = sys.argv
exec(open(os.path.join(os.path.dirname(os.path.abspath(__file__)), 'seed_prompt_round1.py')).read().split("for pid in sys.argv[1:]:")[0])
for pid in sys.argv[1:]:
    p = props[pid]
    prev = []
    for d in sorted(glob.glob(f"/verif/seeded/{pid}-*")):
        try:
            m = json.load(open(d + "/meta.json"))
            prev.append("  - " + (m.get("summary") or "").replace("\n", " ")[:400])
        except Exception:
            pass
    R = os.environ.get("SEED_ROUND", "r2"); wt = f"/tmp/seed/{pid}{R}"; out = f"/tmp/seed/out/{pid}{R}"
    s = T.format(wt=wt, out=out, title=p['title'], statement=p['statement'], quant=p['quantifier']['text'], why=p['why_tests_cant'], files=", ".join(p['anchors']['files']), pid=pid)
    s += "\n\nIMPORTANT ADDITIONS FOR THIS ROUND.\n(1) The description of the existing tests above may be slightly out of date; the library has received several bug-fix commits recently (see `git log` in your worktree) and the property currently HOLDS in your worktree; base your work on the code as it is there.\n(2) Other engineers have ALREADY produced the following breaking changes for this property. Yours must be DIFFERENT from all of them in location and in mechanism (do not touch the same statement, do not re-create the same idea elsewhere), and should be subtler - prefer changes that only matter for rare configurations, multi-step histories, particular interleavings, or that need two cooperating sites:\n" + "\n".join(prev) + "\n(3) Never use `git stash`; never kill processes by a generic pattern (other engineers run the same commands in sibling directories) - kill only PIDs you started.\n"
    open(f"/tmp/seed/prompt_{pid}{R}.txt", "w").write(s)
    print(pid, len(s), len(prev))
