"""Demonstration on REAL multiprocessing (no simulator) of the C03 race found by Engine A:
a worker whose receive timed out reads the done flag only afterwards; if the last item is
flushed and the flag raised in between, every worker exits and the item is never processed,
while visit_leaves returns normally. Only delays are injected (a slow user filter, and a
pause between a worker's time-out and its look at the flag); no logic is changed.
exit 0 = all 4 leaves visited; exit 1 = a leaf was lost."""
import multiprocessing.synchronize as mps
import os, sys, tempfile, time
from toasty.pyramid import Pyramid

logdir = tempfile.mkdtemp()
orig_is_set = mps.Event.is_set

def slow_is_set(self):
    time.sleep(1.5)  # widen the window between "get timed out" and "look at the flag"
    return orig_is_set(self)

mps.Event.is_set = slow_is_set
calls = {"n": 0}

def flt(tile):
    if tuple(tile.pos) == (1, 1, 1):
        calls["n"] += 1
        if calls["n"] == 2:  # second evaluation = the dispatch pass (first is the counting pass)
            time.sleep(1.2)
    return True

def cb(pos, tile):
    open(os.path.join(logdir, "%d_%d_%d" % tuple(pos)), "w").close()

Pyramid.new_toast_filtered(1, flt).visit_leaves(cb, parallel=2)
got = sorted(os.listdir(logdir))
print("leaves visited:", got)
sys.exit(0 if len(got) == 4 else 1)
