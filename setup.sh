#!/bin/bash
# Offline set-up after a fresh restore: wheels -> /venv (hypothesis) and /verif/.deps (jsonschema, atheris)
HERE="$(cd "$(dirname "$0")" && pwd)"
W=/opt/veriftools/wheels
PY=/venv/bin/python
export PIP_NO_INDEX=1 PIP_DISABLE_PIP_VERSION_CHECK=1
$PY -c "import hypothesis" 2>/dev/null || $PY -m pip install -q --no-index --find-links $W hypothesis
mkdir -p "$HERE/.deps"
$PY -c "import sys; sys.path.insert(0,'$HERE/.deps'); import jsonschema" 2>/dev/null || \
  $PY -m pip install -q --no-index --find-links $W --target "$HERE/.deps" --no-deps jsonschema jsonschema_specifications referencing rpds_py attrs typing_extensions
$PY -c "import sys; sys.path.insert(0,'$HERE/.deps'); import atheris" 2>/dev/null || \
  $PY -m pip install -q --no-index --find-links $W --target "$HERE/.deps" --no-deps atheris || true
bash "$HERE/tools/build_ext.sh" /repo || true
$PY -c "import toasty, hypothesis; print('setup ok: toasty', toasty.__file__, 'hypothesis', hypothesis.__version__)"
